#!/usr/bin/env python3
"""Confirm a seeded change in a scratch worktree of /repo (outside /repo and /verif):
  usage: tools/confirm_seeded.py <seeded-id> [--skip-tests]
1. create a fresh worktree at /tmp/confirm/<id>, run demo.py on the unchanged tree (must exit 0),
2. apply patch.diff, run demo.py (must exit non-zero),
3. run the repository's pinned test command with the patch applied and compare with BASELINE stable_pass,
4. write the outcome into seeded/<id>/meta.json ("confirmed"), remove the worktree."""
import json
import os
import shutil
import subprocess
import sys
import xml.etree.ElementTree as ET

ROOT = os.path.dirname(os.path.dirname(os.path.abspath(__file__)))


def run(cmd, cwd, env=None, timeout=3600):
    p = subprocess.run(cmd, cwd=cwd, env=env, capture_output=True, text=True, timeout=timeout)
    return p.returncode, (p.stdout + p.stderr)[-1500:]


def main():
    mid = sys.argv[1]
    skip = "--skip-tests" in sys.argv
    mdir = os.path.join(ROOT, "seeded", mid)
    meta = json.load(open(os.path.join(mdir, "meta.json")))
    wt = f"/tmp/confirm/{mid}"
    rundir = f"/tmp/confirm/{mid}_run"
    shutil.rmtree(rundir, ignore_errors=True)
    os.makedirs(rundir, exist_ok=True)
    subprocess.run(["git", "-C", "/repo", "worktree", "remove", "--force", wt], capture_output=True)
    subprocess.check_call(["git", "-C", "/repo", "worktree", "add", "--detach", wt, "HEAD", "-q"])
    env = dict(os.environ, PYTHONPATH=wt, NUMBA_CACHE_DIR=os.path.join(rundir, "numba"), PYTHONDONTWRITEBYTECODE="1")
    env.pop("SOPHT_VERIF", None)
    out = {}
    try:
        rc0, t0 = run(["/venv/bin/python", os.path.join(mdir, "demo.py")], rundir, env)
        out["demo_unchanged"] = {"exit": rc0, "tail": t0[-300:]}
        subprocess.check_call(["git", "-C", wt, "apply", os.path.join(mdir, "patch.diff")])
        rc1, t1 = run(["/venv/bin/python", os.path.join(mdir, "demo.py")], rundir, env)
        out["demo_changed"] = {"exit": rc1, "tail": t1[-300:]}
        if not skip:
            junit = os.path.join(rundir, "junit.xml")
            run(["/venv/bin/python", "-m", "pytest", "-q", "-p", "no:cacheprovider", "--timeout=900", "--continue-on-collection-errors",
                 f"--junitxml={junit}", "-x" if False else "-q"], wt, env, timeout=7200)
            base = set(json.load(open("/root/.vp/BASELINE.json"))["stable_pass"])
            res = {}
            for tc in ET.parse(junit).iter("testcase"):
                res[tc.get("classname") + "::" + tc.get("name")] = not any(ch.tag in ("failure", "error", "skipped") for ch in tc)
            missing = sorted(n for n in base if not res.get(n, False))
            out["tests"] = {"stable_pass": len(base), "still_passing": len(base) - len(missing), "now_failing": missing[:10]}
        out["ok"] = out["demo_unchanged"]["exit"] == 0 and out["demo_changed"]["exit"] != 0 and (skip or not out["tests"]["now_failing"])
    finally:
        subprocess.run(["git", "-C", "/repo", "worktree", "remove", "--force", wt], capture_output=True)
        shutil.rmtree(rundir, ignore_errors=True)
    meta["confirmed"] = out
    json.dump(meta, open(os.path.join(mdir, "meta.json"), "w"), indent=1)
    print(mid, json.dumps(out)[:1200])


if __name__ == "__main__":
    main()
