#!/bin/sh
# Offline setup: syntax-check every specification module and byte-compile the harness.
set -e
cd "$(dirname "$0")/.."
mkdir -p out evidence
T=$(mktemp -d)
cp spec/*.tla "$T"/
( cd "$T" && for f in *.tla; do
    tla-sany "$f" > "$f.log" 2>&1 || { echo "SANY failed on $f"; cat "$f.log"; exit 1; }
    if grep -q -E "Parse Error|Semantic errors|Fatal" "$f.log"; then echo "SANY errors in $f"; cat "$f.log"; exit 1; fi
  done )
rm -rf "$T"
PYTHONDONTWRITEBYTECODE=1 /venv/bin/python - <<'PY'
import ast, pathlib, sys
for p in pathlib.Path("harness").glob("*.py"):
    ast.parse(p.read_text(), str(p))
print("harness syntax ok")
PY
echo "setup ok"
