#!/usr/bin/env python3
"""Run quick checks against seeded changes (/verif/seeded/<id>/patch.diff) applied to a scratch copy of /repo/sopht.

usage: tools/selftest.py [--checks C01,C13] [--tier quick] [ids ...]
For each seeded change: copy /repo/sopht to a scratch dir outside /repo and /verif, apply the patch, run the checks named in
meta.json ("property" + "expected_checks") or given with --checks, print which report a violation, remove the scratch copy.
Never touches /repo; evidence of these runs goes to out/mut_evidence."""
import argparse
import json
import os
import shutil
import subprocess
import sys
import tempfile

ROOT = os.path.dirname(os.path.dirname(os.path.abspath(__file__)))


def main():
    ap = argparse.ArgumentParser()
    ap.add_argument("ids", nargs="*")
    ap.add_argument("--checks", default=None)
    ap.add_argument("--tier", default="quick")
    a = ap.parse_args()
    sd = os.path.join(ROOT, "seeded")
    ids = a.ids or sorted(d for d in os.listdir(sd) if os.path.isdir(os.path.join(sd, d)))
    results = {}
    for mid in ids:
        mdir = os.path.join(sd, mid)
        meta = json.load(open(os.path.join(mdir, "meta.json")))
        checks = a.checks.split(",") if a.checks else sorted(set([meta["property"]] + meta.get("expected_checks", [])))
        scratch = tempfile.mkdtemp(prefix=f"seeded_{mid}_")
        try:
            shutil.copytree("/repo/sopht", os.path.join(scratch, "sopht"))
            pr = subprocess.run(["patch", "-p1", "-d", scratch, "-i", os.path.join(mdir, "patch.diff")], capture_output=True, text=True)
            if pr.returncode != 0:
                print(f"{mid}: PATCH DOES NOT APPLY\n{pr.stdout}{pr.stderr}")
                results[mid] = {"error": "patch"}
                continue
            res = {}
            for c in checks:
                env = dict(os.environ, SOPHT_REPO=scratch)
                p = subprocess.run([os.path.join(ROOT, "check"), c, "--tier", a.tier], capture_output=True, text=True, env=env)
                viol = [l for l in p.stdout.splitlines() if l.startswith("VIOLATION")]
                detail = ""
                lines = p.stdout.splitlines()
                for i, l in enumerate(lines):
                    if l.startswith("VIOLATION") and i + 1 < len(lines):
                        detail = lines[i + 1].strip()[:300]
                        break
                res[c] = {"exit": p.returncode, "violations": len(viol), "first": detail}
                print(f"{mid}: {c} exit={p.returncode} violations={len(viol)} {detail}")
                if p.returncode == 2:
                    print(p.stderr[-1500:])
            results[mid] = res
        finally:
            shutil.rmtree(scratch, ignore_errors=True)
    out = os.path.join(ROOT, "out", "selftest.json")
    os.makedirs(os.path.dirname(out), exist_ok=True)
    prev = {}
    if os.path.exists(out):
        prev = json.load(open(out))
    prev.update(results)
    json.dump(prev, open(out, "w"), indent=1)


if __name__ == "__main__":
    sys.exit(main())
