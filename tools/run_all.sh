#!/bin/sh
# run every registered quick (or $1) check once, print one summary line per check
TIER="${1:-quick}"
cd "$(dirname "$0")/.."
for c in C01 C03 C04 C05 C06 C07 C08 C09 C10 C11 C12 C13 C14 C15 C16 C17 C18 C19 C20; do
  ./check $c --tier "$TIER" 2>&1 | grep -E "^\[C|^VIOLATION|^KNOWN|MACHINERY" | head -5
done
