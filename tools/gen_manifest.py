#!/usr/bin/env python3
"""Writes /verif/MANIFEST.json from the table below and validates it (and any evidence files)
against the schemas in /root/.vp when those are available."""
import json
import os
import sys

ROOT = os.path.dirname(os.path.dirname(os.path.abspath(__file__)))

BASELINE_OFF = (
    "cd /repo && env -u SOPHT_VERIF /venv/bin/python -m pytest -ra -q -p no:cacheprovider --timeout=900 "
    "--continue-on-collection-errors --junitxml=/tmp/sopht_baseline.junit.xml"
)

TRUST = (
    "Trusted base: TLC 1.8 and the CommunityModules Json module; the harness-side pystencils-2.0 compatibility shim "
    "(harness/shim.py, DESIGN App. C); the exact-rational interpreter of captured stencils; the projection between "
    "arrays and specification states (harness/*.py); closed-form tables generated from documented formulas."
)

# property -> (technique, level text, design ref, level note) ; only built checks are listed
CHECKS = {
    "C13": (
        "TLA+ kernel-zoo spec (MC_Kernels) simulated by TLC with frame property; every emitted transition replayed into the "
        "real generators (compiled f32/f64, strided views with guard cells) and the exact-rational interpreter",
        "Model-based conformance: TLC generates states and the specified post-state of every public kernel (one atomic action "
        "each, whole-array semantics incl. untouched cells); the real kernel must reproduce it bit-exactly (rationally exact "
        "for ENO3/RK3).  Right level because the property is a per-kernel functional contract over all inputs/shapes/options: "
        "unit impulses + (bi)linearity lift the sampled states to all field values.",
        "DESIGN.md 6 C13",
        TRUST,
    ),
    "C05": (
        "TLC exhaustive check of MC_Consistency (grid operators vs exact derivatives of monomials, all cells, both ENO3 branch "
        "combinations, negative controls); every case replayed into the real generators (exact-rational + compiled) against the "
        "continuous derivative emitted by TLC; degree analysis of every captured stencil",
        "Model checking of the operator algebra (finite, exhaustive) + conformance of the code to the continuous operators on the "
        "same finite basis; the lift to all polynomials is linearity, the lift to smooth fields is Taylor (not decided).",
        "DESIGN.md 6 C05",
        TRUST,
    ),
    "C04": (
        "TLC exhaustive check of MC_Conservation (face-flux identity over all upwind sign patterns incl. ties; sum laws over "
        "unit impulses x velocity patterns; margins derived by refutation; negative controls) + replay of the cases into the "
        "real kernels (telescoping partial sums and grid sums on the code's own outputs, exact-rational and compiled) + "
        "step-level sums on the real simulators",
        "Model checking of conservation form and of the sum laws (exhaustive within the stencil window, lifted by linearity) and "
        "conformance by replay; the property is evaluated directly on the code's outputs, no transcription of stencils.",
        "DESIGN.md 6 C04",
        TRUST,
    ),
    "C12": (
        "TLC exhaustive check of MC_Identities (div curl = 0, stream-function identities, update = omega + p curl, penalised = "
        "forcing of difference) on every unit impulse + dense fields, negative control; compositions replayed through the real "
        "generators (exact-rational equality, compiled bit-exact) with the identities evaluated on the code's own outputs; "
        "3-D simulator divergence norm",
        "Exhaustive over a basis of the (linear) input space at every interior cell, in the model and through the code.",
        "DESIGN.md 6 C12",
        TRUST,
    ),
    "C20": (
        "TLC check of MC_TimeSteppers (SSP-RK3 stage machine == I + A + A^2/2 + A^3/6 on all unit impulses x generic frozen "
        "velocities; half-third-stage variant refuted) + replay of the time-step actions of MC_Kernels into the real kernels "
        "(exact-rational equality) + identification of the polynomial the real SSP-RK3 kernel realises",
        "Model checking of the scheme algebra + conformance of every time-step kernel to field + step*flux / the nominal polynomial.",
        "DESIGN.md 6 C20",
        TRUST,
    ),
    "C16": (
        "TLC exhaustive check of StableDt (exact rationals: positivity, linearity, advective and diffusive bounds; guard-placement "
        "variant refuted) with every instance mapped exactly onto concrete f32/f64 instances and replayed into the real helper "
        "and simulators; direct evaluation of the bounds on natural instances; TLC exhaustive MC_MaxPrinciple replayed into the "
        "real diffusion kernels",
        "Model checking of the time-step selection over the regimes that precision and grid size produce + conformance of the "
        "returned value; the maximum principle is exhaustive over the stencil of one cell, hence over every cell.",
        "DESIGN.md 6 C16",
        TRUST,
    ),
    "C19": (
        "TLC exhaustive check of MC_Stabilisers (Brinkmann over exact rationals; boundary damping as an operational model on "
        "symbolic values; filter eigen-relations on rational-cosine Fourier modes with arbitrary stale buffers; margin control) "
        "and CharFunc (table of the documented Heaviside); all cases replayed into the real kernels with poisoned work buffers; "
        "inequalities evaluated on the code's outputs; dense Fourier sweep",
        "Model checking of each operator's contraction/fixed-point laws + conformance of the code to the symbolic/rational results.",
        "DESIGN.md 6 C19",
        TRUST,
    ),
    "C03": (
        "TLC exhaustive check of Poisson.tla (domain-doubling buffer state machine, arbitrary stale buffers, solve sequences, "
        "symbolic-linear forms over Green's samples; three wrong variants refuted) + replay of emitted solve sequences into the "
        "real 2-D/3-D solvers with all work buffers poisoned + measured kernel K[i][j] of the real solver vs closed-form G h^D",
        "Model checking of the design over all histories (linear in rhs and stale contents: impulses suffice) + conformance of "
        "the real solver at 5e-12 / 2e-4 against documented closed forms, for every cell pair of many shapes.",
        "DESIGN.md 6 C03",
        TRUST,
    ),
    "C11": (
        "TLC exhaustive check of FastDiag.tla (Neumann Laplacian: symmetry, energy form, compatibility on all impulse pairs; "
        "consistency of emitted problems) + replay of problems with known zero-mean solution into the real 2-D/3-D solvers, "
        "residual evaluated on the code's output",
        "Model checking of the discrete operator's algebra on a basis + conformance of the solver on constructed problems.",
        "DESIGN.md 6 C11",
        TRUST,
    ),
    "C06": (
        "TLC exhaustive check of Interp.tla (sub-cell marker lattice, nondeterministic floor on cell centres, tensor weights from "
        "an exact integer table; partition of unity, non-negativity, support, affine reproduction for all positions and both "
        "floor outcomes; ASSUME rejects tables violating the 1-D laws) + the real communicator kernels driven over the same "
        "lattice +-1 ulp (index in the allowed set, weights vs documented closed forms, laws on the code's own weights)",
        "Model checking of the D-dimensional consequences of the 1-D laws incl. the rounding case + conformance of the numba "
        "kernels at float sharpness on the lattice the model enumerates.",
        "DESIGN.md 6 C06",
        TRUST,
    ),
    "C07": (
        "TLC exhaustive check of Interp.tla (accumulating Spread action; adjoint identity, force and torque conservation over "
        "all two-marker lattice configurations incl. identical supports and repeated calls; assign-variant refuted) + replay of "
        "emitted behaviours into the real spreading kernels (prediction = sum of closed-form kernel samples) + identities "
        "evaluated on the code's own outputs for random/clustered/duplicated marker sets",
        "Model checking of the bilinear identities on a basis + conformance and direct evaluation on the code.",
        "DESIGN.md 6 C07",
        TRUST,
    ),
    "C10": (
        "TLC exhaustive check of Coupling.tla (all interleavings of evaluate / interact / forcing step(dt) / move body / change "
        "flow / flow step for 1-2 bodies sharing a forcing field, accumulate and reset mode, depth 5-9; ghost integral and clock; "
        "action properties for frame conditions; integrate-on-evaluate variant refuted) + behaviours from TLC simulation replayed "
        "call by call into real VirtualBoundaryForcing objects with the state compared after every call (bit-exact in double) + "
        "random histories on RigidBodyFlowInteraction / CosseratRodFlowInteraction with the law evaluated on their own fields",
        "Model checking over all short call histories + step-wise conformance of the implementation along spec behaviours.",
        "DESIGN.md 6 C10",
        TRUST,
    ),
    "C08": (
        "TLC exhaustive check of Bodies.tla over exact rationals (rational rotations from integer quaternions; force balance, "
        "moment balance about two points, power identity for rigid bodies; nodal force/couple transfer for element-centric, edge "
        "and surface rod grids with taper and caps; unit forces on every marker/component) + every case loaded into real "
        "PyElastica bodies and real forcing grids (transfer compared with the rational result; balance laws evaluated on the "
        "code's outputs for random forcing of the full natural layouts; coupled fluid+body net force)",
        "Model checking of the balance laws on a basis of the (linear) forcing space + conformance of each grid class.",
        "DESIGN.md 6 C08",
        TRUST,
    ),
    "C09": (
        "TLC exhaustive check of Bodies.tla (marker positions/velocities over exact rationals, rigid-section kinematics, surface "
        "radius law) + cases loaded into real bodies/grids (positions and velocities compared with the model; V + Omega x r on "
        "every marker of the natural layouts; second-order motion consistency of body-fixed grids; random tapered rods with dense "
        "surface grids and caps)",
        "Model checking of the kinematic relations + conformance of the grid classes' position/velocity maps.",
        "DESIGN.md 6 C09",
        TRUST,
    ),
    "C17": (
        "TLC exhaustive check of IO.tla (all registry scenarios: dimension, Eulerian scalar/vector, up to two Lagrangian grids with "
        "marker counts incl. N = dim and with/without fields, one mismatch; round trip, rejection, marker-major layout; two wrong "
        "design variants refuted) + every scenario replayed through the real IO classes (h5 files inspected: paths, shapes, raw "
        "bytes; loaded arrays compared by raw bytes incl. NaN payloads/denormals; exceptions vs the model's error state) + "
        "CosseratRodIO / EulerianFieldIO round trips",
        "Model checking of the registry/file/load design over all configurations + conformance of the real classes per scenario.",
        "DESIGN.md 6 C17",
        TRUST,
    ),
    "C01": (
        "TLA+ step machine FlowStep.tla (one action per kernel call, arbitrary scratch contents) checked by TLC against RefStep "
        "(the documented operator sequence) on simulated behaviours for every simulator configuration + the emitted states "
        "replayed through the real simulators' public time_step with all scratch/solver buffers poisoned; vorticity compared with "
        "the exact pipeline (damping from the symbolic model), velocity with an independent closed-form reference "
        "(Green's function summation / Neumann pseudo-inverse + central differences), time and forcing checked exactly",
        "Model-based conformance of whole steps: the specification fixes the discretisation independently of the kernels; "
        "sampled (simulation-mode) rather than exhaustive states, full factorial of configurations in the thorough tier.",
        "DESIGN.md 6 C01",
        TRUST,
    ),
    "C14": (
        "TLC check of FlowStep.tla: RefStep commutes with every element of the grid symmetry group (permutations x mirrors, "
        "vorticity as pseudo-scalar/vector) on simulated compact tie-free states; refuted when ties are allowed + emitted states "
        "stepped by two real simulators (grid and image, non-square/non-cubic) with T(step(s)) compared to step(T(s)) on the "
        "code's outputs (vorticity, velocity; free stream and forcing transformed)",
        "Model checking of the operator sequence's equivariance + direct evaluation of the property on pairs of real simulators.",
        "DESIGN.md 6 C14",
        TRUST,
    ),
    "C15": (
        "TLC exhaustive check of Sched.tla (per-cell Load/Store micro-steps under arbitrary interleaving: deterministic exactly for "
        "the classes output-distinct / output aliased to centre-read inputs; aliased neighbour reads refuted) + TLC trace validation "
        "(TraceKernels.tla monitor) of every compiled-kernel call recorded from all generators, simulator steps, solvers and the "
        "coupling reset, with a corrupted-trace self-test + bit-identity of every zoo kernel for 1, 2, 5, 16 threads + serial spreading",
        "Model checking over all schedules of one call + trace validation that every real call is in the schedule-independent class.",
        "DESIGN.md 6 C15",
        TRUST,
    ),
    "C18": (
        "TLC exhaustive check of Restart.tla (restart helper over every set of checkpoint files: largest index, time cross-check, "
        "refusals; crash/restore at every step index with arbitrary scratch in the fresh objects; first-found and hidden-state "
        "variants refuted) + every helper case replayed with real h5 files and a real PyElastica restart directory + real coupled "
        "runs (2-D cylinder, 3-D rod) resumed from every checkpoint index in fresh objects and re-run with all scratch poisoned",
        "Model checking over all file sets / crash points + conformance of the real helper and of real resumed runs; the "
        "def-before-use content is model checked in FlowStep.tla (arbitrary initial buffers).",
        "DESIGN.md 6 C18",
        TRUST,
    ),
}

NOT_YET = "check not built yet in this round (see DESIGN.md 11 for the build order)"
NA = {
    "C02": "asymptotic convergence to transcendental analytic solutions on 32..128-cell grids is outside what a bounded "
    "integer state model can represent (DESIGN.md 8); ingredients are decided by C01/C03/C05/C16",
}


def main():
    props = [json.loads(l)["id"] for l in open(os.path.join(ROOT, "properties.jsonl"))]
    checks = []
    for pid in props:
        if pid in CHECKS:
            tech, text, ref, note = CHECKS[pid]
            checks.append(
                {
                    "property_id": pid,
                    "quick_cmd": f"./check {pid} --tier quick",
                    "thorough_cmd": f"./check {pid} --tier thorough",
                    "evidence_file": f"/verif/evidence/{pid}.json",
                    "replay_cmd_template": f"./check {pid} --replay {{path}}",
                    "engine": "tlc+replay",
                    "level_claimed": {"category": "model_checking", "text": text, "design_ref": ref},
                    "level_note": note,
                    "technique": tech,
                }
            )
    na = []
    for pid in props:
        if pid in CHECKS:
            continue
        na.append({"property_id": pid, "reason": NA.get(pid, NOT_YET)})
    m = {
        "version": 1,
        "setup_cmd": "./tools/setup.sh",
        "hooks": {
            "guard": "SOPHT_VERIF",
            "enable": "no source hooks: SOPHT_VERIF=1 is read only by the harness-side wrappers (harness/shim.py patches "
            "pystencils.create_kernel / CreateKernelConfig in the checking process); /repo is imported from its working tree",
            "baseline_off_cmd": BASELINE_OFF,
            "source_commits": [],
            "add_only": True,
        },
        "engines": [
            {
                "name": "tlc+replay",
                "path": "/verif/check",
                "serves_properties": sorted(CHECKS),
                "kind_free_text": "explicit TLA+ specification (spec/*.tla) model-checked / simulated by TLC; behaviours "
                "replayed into the real SophT code and recorded traces validated by TLC (harness/*.py)",
            }
        ],
        "checks": checks,
        "not_applicable": na,
        "notes": "See DESIGN.md. Exit codes: 0 held, 1 violation (VIOLATION line), 2 machinery failure. Known findings: /verif/known_findings.json (F1-F6 fixed by fix: commits in /repo; F7 open, property C15, printed as a KNOWN-FINDING line by ./check C15). Seeded changes and self-tests: /verif/seeded, tools/selftest.py. Extended specification coverage beyond the listed properties: ./check X01 .. X05 (DESIGN.md 12.6).",
    }
    with open(os.path.join(ROOT, "MANIFEST.json"), "w") as fh:
        json.dump(m, fh, indent=1)
    try:
        import jsonschema

        sch = json.load(open("/root/.vp/MANIFEST.schema.json"))
        jsonschema.validate(m, sch)
        esch = json.load(open("/root/.vp/EVIDENCE.schema.json"))
        for f in sorted(os.listdir(os.path.join(ROOT, "evidence"))):
            if f.endswith(".json"):
                jsonschema.validate(json.load(open(os.path.join(ROOT, "evidence", f))), esch)
        print("MANIFEST + evidence valid;", len(checks), "checks,", len(na), "not_applicable")
    except ImportError:
        print("jsonschema unavailable; not validated")


if __name__ == "__main__":
    main()
