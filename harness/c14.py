"""C14 -- the flow step has no preferred direction.

TLC: spec/FlowStep.tla -- RefStep commutes with every element of the grid symmetry group (axis
permutations and mirrors; vorticity transformed as a pseudo-scalar / pseudo-vector) on compactly
supported states with tie-free velocities; with ties allowed the law is refuted (the documented
exclusion).  Binding: states emitted by TLC are stepped by TWO real simulators (the grid and its
image, non-square / non-cubic) and T(step(s)) is compared with step(T(s)) on the code's own
outputs: vorticity and velocity, free stream and forcing transformed accordingly."""
from __future__ import annotations

import itertools

import numpy as np

from . import core, flowstep, shim, tlc


def group(D):
    return [{"perm": list(p), "sgn": list(s)} for p in itertools.permutations(range(1, D + 1)) for s in itertools.product((1, -1), repeat=D)]


def gtxt(gs):
    return "{" + ", ".join("[perm |-> <<%s>>, sgn |-> <<%s>>]" % (",".join(map(str, g["perm"])), ",".join(map(str, g["sgn"]))) for g in gs) + "}"


def det(g):
    p = g["perm"]
    inv = sum(1 for a in range(len(p)) for b in range(a + 1, len(p)) if p[a] > p[b])
    return (-1) ** inv * int(np.prod(g["sgn"]))


def t_scalar(g, a):
    """array with axes (.., y, x): physical axis k (1-based) lives on array axis D-k."""
    D = a.ndim
    flip_axes = [D - k for k in range(1, D + 1) if g["sgn"][k - 1] == -1]
    b = np.flip(a, axis=flip_axes) if flip_axes else a
    # new array axis a' hosts physical axis j = D - a'; it takes the old array axis of k = perm^-1(j)
    inv = {g["perm"][k - 1]: k for k in range(1, D + 1)}
    axes = [D - inv[D - ap] for ap in range(D)]
    return np.ascontiguousarray(np.transpose(b, axes))


def t_vector(g, v):
    D = v.shape[0]
    out = [None] * D
    for k in range(1, D + 1):
        out[g["perm"][k - 1] - 1] = g["sgn"][k - 1] * t_scalar(g, v[k - 1])
    return np.stack(out)


def t_primary(g, sim, a):
    D = len(g["perm"])
    if sim == "ns2":
        return det(g) * t_scalar(g, a)
    if sim == "ns3":
        return det(g) * t_vector(g, a)
    if sim == "pt_scalar":
        return t_scalar(g, a)
    return t_vector(g, a)


def t_shape(g, shape):
    D = len(shape)
    return t_scalar(g, np.zeros(shape)).shape


def step_pair(chk, cfg, e, g, rng, real_t=np.float64, U=(1.5, -0.5, 0.25)):
    D = len(cfg["shape"])
    U = np.array(U[:D])
    cfg_b = dict(cfg, shape=t_shape(g, cfg["shape"]))
    prim = "vorticity_field" if cfg["sim"] in ("ns2", "ns3") else "primary_field"

    def load_and_step(c, om0, vel0, frc0, Uc):
        sim = flowstep.get_sim(c, real_t)
        tgt = getattr(sim, prim)
        tgt[...] = om0
        sim.velocity_field[...] = vel0
        if c.get("forcing", False):
            sim.eul_grid_forcing_field[...] = frc0
        sim.time = 0.0
        flowstep.poison_scratch(sim, rng)
        flowstep.run_step(sim, c, list(Uc))
        return getattr(sim, prim).astype(float).copy(), sim.velocity_field.astype(float).copy()

    om0 = np.array(e["om0"], dtype=float)
    om0 = om0[0] if cfg["sim"] in ("ns2", "pt_scalar") else om0
    vel0 = np.array(e["vel0"], dtype=float)
    frc0 = np.array(e["frc0"], dtype=float)
    oa, va = load_and_step(cfg, om0, vel0, frc0, U)
    Ub = np.zeros(D)
    for k in range(1, D + 1):
        Ub[g["perm"][k - 1] - 1] = g["sgn"][k - 1] * U[k - 1]
    ob, vb = load_and_step(cfg_b, t_primary(g, cfg["sim"], om0), t_vector(g, vel0), t_vector(g, frc0), Ub)
    errs = []
    lhs = t_primary(g, cfg["sim"], oa)
    mag = max(1.0, np.abs(ob).max())
    if np.abs(lhs - ob).max() > 2e-11 * mag:
        errs.append(f"T(step(s)) and step(T(s)) differ in {prim} by {np.abs(lhs - ob).max():.3g}")
    if cfg["sim"] in ("ns2", "ns3"):
        lv = t_vector(g, va)
        if np.abs(lv - vb).max() > 2e-10 * max(1.0, np.abs(vb).max()):
            errs.append(f"T(step(s)) and step(T(s)) differ in velocity by {np.abs(lv - vb).max():.3g}")
    return errs


def run(chk: core.Check):
    shim.install()
    quick = chk.tier == "quick"
    rng = np.random.default_rng(chk.seed)
    raw = dict(flowstep.RAW, UVals="{-2, 1, 3}")
    gens3 = [{"perm": [2, 3, 1], "sgn": [1, 1, 1]}, {"perm": [2, 1, 3], "sgn": [1, 1, 1]}, {"perm": [1, 2, 3], "sgn": [-1, 1, 1]},
             {"perm": [3, 1, 2], "sgn": [1, -1, -1]}]
    # ---- model: equivariance of the documented operator sequence on square / cubic grids ---------
    mcfgs = [
        ({"sim": "ns2", "shape": (9, 9), "forcing": True, "margin": 4, "noties": True}, group(2)),
        ({"sim": "pt_scalar", "shape": (9, 9), "margin": 4, "noties": True}, group(2)),
        ({"sim": "ns3", "shape": (7, 7, 7), "forcing": True, "filter": "convolution", "order": 1, "margin": 3, "noties": True}, gens3 if quick else group(3)),
        ({"sim": "pt_vector", "shape": (9, 9, 9), "margin": 4, "noties": True}, gens3 if quick else group(3)[::3]),
    ]
    if not quick:
        mcfgs.append(({"sim": "ns3", "shape": (7, 7, 7), "forcing": False, "filter": "multiplicative", "order": 1, "margin": 3, "noties": True}, group(3)[1::4]))
    for cfg, gs in mcfgs:
        res = tlc.run_wrapped("FlowStep", flowstep.config_consts(cfg), "SPECIFICATION Spec\nINVARIANT EquivariantAll\n", raw=dict(raw, Group=gtxt(gs)),
                              mode="simulate", simulate={"num": 2 if quick else 5, "depth": 30}, seed=chk.seed, timeout=3000)
        chk.add_tlc(f"FlowStep equivariance {cfg['sim']} |G|={len(gs)}", res)
    bad = {"sim": "pt_scalar", "shape": (9, 9), "margin": 4, "noties": False}
    res = tlc.run_wrapped("FlowStep", flowstep.config_consts(bad), "SPECIFICATION Spec\nINVARIANT EquivariantAll\n", raw=dict(flowstep.RAW, UVals="{-1, 0, 1}", Group=gtxt(group(2))),
                          mode="simulate", simulate={"num": 40, "depth": 30}, seed=chk.seed, timeout=900)
    chk.add_tlc("control ties break mirror symmetry", res, expect_violation="EquivariantAll")
    # ---- code: two real simulators per group element, non-square / non-cubic grids -----------------
    ccfgs = [
        ({"sim": "ns2", "shape": (14, 16), "forcing": True, "free_stream": True, "w": 2, "margin": 6, "noties": True, "h": 0.5, "dt": 1.0, "rho": 0.5, "nu": 0.25}, group(2)),
        ({"sim": "pt_scalar", "shape": (11, 13), "margin": 4, "noties": True}, group(2)[::2]),
        ({"sim": "ns3", "shape": (11, 12, 13), "forcing": True, "free_stream": True, "filter": "convolution", "order": 1, "w": 1, "margin": 5, "noties": True},
         gens3 if quick else group(3)[::2]),
    ]
    if not quick:
        ccfgs += [({"sim": "ns3", "shape": (12, 11, 13), "forcing": False, "free_stream": False, "filter": "off", "w": 2, "margin": 5, "noties": True,
                    "solver": "fast_diagonalisation"}, group(3)[1::2]),
                  ({"sim": "pt_vector", "shape": (10, 11, 12), "margin": 4, "noties": True}, group(3)[::4])]
    for cfg, gs in ccfgs:
        res = tlc.run_wrapped("FlowStep", flowstep.config_consts(cfg), "SPECIFICATION Spec\nACTION_CONSTRAINT EmitDone\n", raw=raw, mode="simulate",
                              simulate={"num": 1, "depth": 24 if quick else 64}, seed=chk.seed + 3, timeout=1500)
        chk.add_tlc(f"emit compact states {cfg['sim']} {cfg['shape']}", res)
        for e in res.emits[: 1 if quick else 3]:
            # free streams: generic and aligned with each single axis (a relabelling maps an aligned free stream onto another axis)
            Us = flowstep.FREE_STREAMS[:4] if cfg.get("free_stream", False) else flowstep.FREE_STREAMS[:1]
            for g in gs:
                for U in Us:
                    try:
                        errs = step_pair(chk, cfg, e, g, rng, U=U)
                    except core.MachineryError:
                        raise
                    except Exception as ex:
                        errs = [f"exception {type(ex).__name__}: {ex}"]
                    chk.traces += 1
                    chk.count((cfg["sim"], tuple(cfg["shape"]), tlc.canon(g), tuple(U), tlc.canon(e["om0"])[:40]))
                    for er in errs[:2]:
                        chk.violation({"kind": "equivariance", "sim": cfg["sim"]}, f"{cfg['sim']} {cfg['shape']} group element {g}, free stream {list(U)[:len(cfg['shape'])]}: {er}",
                                      {"g": g, "U": list(U), "error": er})
            if len(chk.samples) < 3:
                chk.sample({"sim": cfg["sim"], "shape": list(cfg["shape"]), "group_elements": len(gs), "example_g": gs[min(3, len(gs) - 1)]})
    chk.assumptions += [
        "model level: square / cubic grids (the group must map the grid to itself inside one TLC instance), integer states, the exact "
        "vorticity pipeline; the recovery stages (damping, solve, curl) are covered at code level",
        "code level: non-square / non-cubic grids, two simulator objects per group element, comparison at 2e-11 (vorticity) / 2e-10 "
        "(velocity); fields vanish within margin = max(flux closure, zone width + growth) of the boundary; velocity samples {-2, 1, 3} "
        "have no cancelling pair (no exactly-zero face sum)",
        "quick tier uses generators of the 3-D group, thorough every second element",
    ]
    return "case = (simulator configuration, initial state, group element): T(step(s)) vs step(T(s)) on two real simulators"
