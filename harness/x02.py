"""X02 -- extended coverage: the coupled main loop of the examples (spec/MainLoop.tla) on a small real run.
Loop-head laws on the real objects: flow clock == forcing clock bit-exactly, forcing field consumed, integral = sum of
dt_i * mismatch of the previous iteration.  Run with `./check X02`; not registered in MANIFEST.json."""
from __future__ import annotations

import numpy as np

from . import core, shim, tlc


def run(chk: core.Check):
    shim.install()
    shim.set_backend("compile")
    raw = {"Dts": "{1, 2, 3}", "Vals": "{-1, 0, 2}"}
    res = tlc.run_wrapped("MainLoop", {"MaxIter": 4, "DoubleInteract": False}, "SPECIFICATION Spec\nINVARIANT LoopHead\nINVARIANT ForceOnce\nCHECK_DEADLOCK FALSE\n", raw=raw, timeout=600)
    chk.add_tlc("MainLoop", res)
    r2 = tlc.run_wrapped("MainLoop", {"MaxIter": 2, "DoubleInteract": True}, "SPECIFICATION Spec\nINVARIANT ForceOnce\nCHECK_DEADLOCK FALSE\n", raw=raw, timeout=600)
    chk.add_tlc("control double interaction", r2, expect_violation="ForceOnce")
    import elastica as ea
    import sopht.simulator as sps

    rng = np.random.default_rng(chk.seed)
    for real_t in (np.float64, np.float32):
        sim = sps.UnboundedNavierStokesFlowSimulator2D(grid_size=(32, 40), x_range=2.0, kinematic_viscosity=0.01, real_t=real_t, with_forcing=True,
                                                       with_free_stream_flow=True, flow_density=1.0)
        cyl = ea.Cylinder(np.array([0.7, 0.8, 0.0]), np.array([0.0, 0.0, 1.0]), np.array([1.0, 0.0, 0.0]), 1.0, 0.15, density=1e3)
        inter = sps.RigidBodyFlowInteraction(rigid_body=cyl, eul_grid_forcing_field=sim.eul_grid_forcing_field, eul_grid_velocity_field=sim.velocity_field,
                                             virtual_boundary_stiffness_coeff=-5e2, virtual_boundary_damping_coeff=-1e1, dx=sim.dx, grid_dim=2,
                                             real_t=real_t, forcing_grid_cls=sps.CircularCylinderForcingGrid, num_forcing_points=24)
        pm_ref = np.zeros_like(inter.lag_grid_position_mismatch_field)
        vm_prev = np.zeros_like(pm_ref)
        errs = []
        for it in range(12):
            dt = sim.compute_stable_timestep(dt_prefac=float(rng.choice([1.0, 0.5, 0.25])))
            inter.time_step(dt=dt)
            pm_ref = (pm_ref + dt * vm_prev).astype(real_t)
            inter()
            vm_prev = inter.lag_grid_velocity_mismatch_field.copy()
            if not np.any(sim.eul_grid_forcing_field != 0) and it > 0:
                errs.append(f"iteration {it}: interaction left the forcing field empty")
            sim.time_step(dt=dt, free_stream_velocity=np.array([1.0, 0.0]))
            chk.traces += 1
            chk.count((real_t.__name__, it))
            if float(sim.time) != float(inter.time):
                errs.append(f"iteration {it}: flow time {sim.time!r} != forcing time {inter.time!r}")
            if np.any(sim.eul_grid_forcing_field != 0):
                errs.append(f"iteration {it}: forcing not consumed by the flow step")
            if np.abs(inter.lag_grid_position_mismatch_field - pm_ref).max() > 8 * float(np.finfo(real_t).eps) * (1 + np.abs(pm_ref).max()):
                errs.append(f"iteration {it}: integral != sum dt_i * (mismatch evaluated in iteration i-1)")
        for er in errs[:3]:
            chk.violation({"kind": "main_loop"}, f"coupled loop ({real_t.__name__}): {er}")
    chk.sample({"loop": ["dt", "interaction.time_step", "interaction()", "flow.time_step"], "iterations": 12})
    return "case = loop iteration of a small real coupled run per precision"
