"""C18 -- a run resumed from a checkpoint continues as the uninterrupted run would have.

TLC: spec/Restart.tla -- (a) the restart helper over every set of checkpoint files (largest
index, time cross-check, refusals; the "first found" variant refuted); (b) crash/restore at every
step index with arbitrary scratch in the fresh objects (the hidden-state variant refuted); the
kernel-level content of (b) -- no step reads scratch it has not written -- is FlowStep.tla's
Realises / NoHiddenState with arbitrary initial buffers (checked in C01).
Binding: (a) every helper case is replayed with REAL files written by the real IO classes and a
real PyElastica restart directory; (b) real coupled runs (2-D forced flow + moving cylinder,
3-D filtered flow + moving rod) are executed uninterrupted, with save -> fresh objects -> load ->
continue at every step index, and with all scratch of the same objects overwritten by garbage
before every step (which must be bit-identical)."""
from __future__ import annotations

import os
import shutil
import tempfile

import numpy as np

from . import core, flowstep, shim, tlc

INV = "SPECIFICATION Spec\nINVARIANT HelperLaw\nINVARIANT ResumeLaw\nCHECK_DEADLOCK FALSE\n"


# ------------------------------------------------------------------------------------------------ (a)
def make_elastica_sim():
    import elastica as ea

    class Sim(ea.BaseSystemCollection, ea.Constraints, ea.Forcing, ea.Damping, ea.CallBacks):
        pass

    sim = Sim()
    rod = ea.CosseratRod.straight_rod(4, np.zeros(3), np.array([1.0, 0.0, 0.0]), np.array([0.0, 1.0, 0.0]), 1.0, 0.05, density=1e3,
                                      youngs_modulus=1e6, shear_modulus=1e6 / 1.5)
    sim.append(rod)
    sim.finalize()
    return sim, rod


def helper_case(chk, e):
    import elastica as ea
    import sopht.utils as spu
    from sopht.utils.restart_sim import restart_simulation

    d = tempfile.mkdtemp(prefix="restart_")
    cwd = os.getcwd()
    try:
        os.chdir(d)
        sim, rod = make_elastica_sim()

        def ios(fill):
            fld = np.full((4, 5), float(fill))
            io = spu.IO(dim=2, real_dtype=np.float64)
            io.define_eulerian_grid(origin=np.array([0.0, 0.0]), dx=np.array([1.0, 1.0]), grid_size=np.array([4, 5]))
            io.add_as_eulerian_fields_for_io(vorticity=fld)
            rod_io = spu.CosseratRodIO(cosserat_rod=rod, dim=2)
            grid = np.full((2, 3), float(fill))
            pm = np.full((2, 3), float(fill) + 0.5)
            fio = spu.IO(dim=2, real_dtype=np.float64)
            fio.add_as_lagrangian_fields_for_io(lagrangian_grid=grid, lagrangian_grid_name="forcing", position_mismatch=pm)
            return io, rod_io, fio, fld, pm

        for i in e["flow"]:
            io, _, _, _, _ = ios(i)
            io.save(h5_file_name=f"sopht_{i:04d}.h5", time=float(10 * i))  # model time / 1000
        for i in e["rod"]:
            _, rio, _, _, _ = ios(i)
            rio.save(h5_file_name=f"rod_{i:04d}.h5", time=float(10 * i))
        for i in e["forcing"]:
            _, _, fio, _, _ = ios(i)
            fio.save(h5_file_name=f"forcing_grid_{i:04d}.h5", time=float(10 * i))
        os.makedirs("restart_data", exist_ok=True)
        ea.save_state(sim, "restart_data", np.float64(e["body_time"]) / 1000.0)   # model times are scaled by 1000: +1 = relative 1e-6..1e-5
        io, rio, fio, fld, pm = ios(-1)
        want = e["result"]
        import contextlib
        import io as _io

        try:
            with contextlib.redirect_stdout(_io.StringIO()):
                t = restart_simulation(sim, io, rio, fio, "restart_data")
            got = ("ok", t)
        except FileNotFoundError as ex:
            got = ("FileNotFoundError", str(ex))
        except ValueError as ex:
            got = ("ValueError", str(ex))
        except Exception as ex:
            got = (type(ex).__name__, str(ex))
        err = None
        if want["kind"] == "ok":
            if got[0] != "ok":
                err = f"helper raised {got} but must return time {want['t']}"
            elif float(got[1]) != float(want["t"]) / 1000.0:
                err = f"helper returned time {got[1]} but the checkpoint with the largest index has time {want['t'] / 1000.0}"
            elif not (np.all(fld == max(e["flow"])) and np.all(pm == max(e["flow"]) + 0.5)):
                err = f"helper loaded fields of checkpoint {fld.flat[0]} instead of the largest index {max(e['flow'])}"
        elif want["kind"] == "FileNotFoundError":
            if got[0] != "FileNotFoundError" or "no file to load" not in got[1]:
                err = f"no checkpoint present: expected the helper's FileNotFoundError, got {got}"
        elif want["kind"] == "ValueError":
            if got[0] == "ok":
                err = f"flow time {10 * max(e['flow'])} and body time {e['body_time'] / 1000.0} disagree but the helper returned {got[1]}"
        else:  # missing companion
            if got[0] == "ok":
                err = f"companion file of checkpoint {max(e['flow'])} is missing but the helper returned {got[1]}"
        return err
    finally:
        os.chdir(cwd)
        shutil.rmtree(d, ignore_errors=True)


# ------------------------------------------------------------------------------------------------ (b)
class Coupled:
    """a coupled flow-body run built from fresh objects (never cached)."""

    def __init__(self, kind, rng_seed, order="interact_first"):
        import elastica as ea
        import sopht.simulator as sps

        self.kind = kind
        self.order = order       # "interact_first": evaluate, flow step, forcing step;  "step_first" (the examples' loop, MainLoop.tla):
        #                          forcing step with the mismatch of the previous iteration, evaluate, flow step
        rng = np.random.default_rng(rng_seed)
        if kind == "2d":
            self.shape, self.h = (24, 28), 0.125
            self.sim = sps.UnboundedNavierStokesFlowSimulator2D(grid_size=self.shape, x_range=self.shape[-1] * self.h, kinematic_viscosity=0.02,
                                                                real_t=np.float64, with_forcing=True, with_free_stream_flow=True, flow_density=1.3)
            self.body = ea.Cylinder(np.array([1.6, 1.5, 0.0]), np.array([0.0, 0.0, 1.0]), np.array([1.0, 0.0, 0.0]), 1.0, 0.35, density=1e3)
            self.body.velocity_collection[:2, 0] = [0.3, -0.2]
            self.body.omega_collection[2, 0] = 0.7
            self.inter = sps.RigidBodyFlowInteraction(rigid_body=self.body, eul_grid_forcing_field=self.sim.eul_grid_forcing_field,
                                                      eul_grid_velocity_field=self.sim.velocity_field, virtual_boundary_stiffness_coeff=-40.0,
                                                      virtual_boundary_damping_coeff=-2.0, dx=self.sim.dx, grid_dim=2,
                                                      forcing_grid_cls=sps.CircularCylinderForcingGrid, num_forcing_points=18)
            self.U = np.array([0.5, 0.1])
        else:
            self.shape, self.h = (14, 16, 18), 0.125
            self.sim = sps.UnboundedNavierStokesFlowSimulator3D(grid_size=self.shape, x_range=self.shape[-1] * self.h, kinematic_viscosity=0.02,
                                                                real_t=np.float64, with_forcing=True, with_free_stream_flow=True, flow_density=0.8,
                                                                filter_vorticity=True, filter_setting_dict={"order": 1, "type": "multiplicative"})
            self.body = ea.CosseratRod.straight_rod(4, np.array([0.8, 0.9, 0.8]), np.array([2.0, 1.0, 2.0]) / 3.0, np.array([1.0, -2.0, 0.0]) / np.sqrt(5.0),
                                                    0.7, 0.06, density=1e3, youngs_modulus=1e6, shear_modulus=1e6 / 1.5)
            self.body.velocity_collection[...] = 0.2 * rng.normal(size=self.body.velocity_collection.shape)
            self.body.omega_collection[...] = 0.3 * rng.normal(size=self.body.omega_collection.shape)
            self.inter = sps.CosseratRodFlowInteraction(cosserat_rod=self.body, eul_grid_forcing_field=self.sim.eul_grid_forcing_field,
                                                        eul_grid_velocity_field=self.sim.velocity_field, virtual_boundary_stiffness_coeff=-30.0,
                                                        virtual_boundary_damping_coeff=-1.5, dx=self.sim.dx, grid_dim=3,
                                                        forcing_grid_cls=sps.CosseratRodSurfaceForcingGrid,
                                                        surface_grid_density_for_largest_element=6)
            self.U = np.array([0.4, 0.0, -0.1])
        # a non-trivial initial flow
        om = self.sim.vorticity_field
        core_ = tuple(slice(6, -6) for _ in self.shape)
        if om.ndim == len(self.shape):
            om[core_] = rng.normal(size=om[core_].shape)
        else:
            om[(slice(None),) + core_] = rng.normal(size=om[(slice(None),) + core_].shape)
        self.dt = 0.05

    def step(self, poison_rng=None):
        if poison_rng is not None:
            flowstep.poison_scratch(self.sim, poison_rng)
            for name in ("lag_grid_flow_velocity_field", "lag_grid_forcing_field", "interp_weights", "local_eul_grid_support_of_lag_grid"):
                a = getattr(self.inter, name)
                a[...] = poison_rng.normal(size=a.shape) * 1e3
            self.inter.nearest_eul_grid_index_to_lag_grid[...] = 3
        if self.order == "step_first":
            self.inter.time_step(dt=self.dt)
            self.inter()
            self.sim.time_step(dt=self.dt, free_stream_velocity=self.U)
        else:
            self.inter()
            self.sim.time_step(dt=self.dt, free_stream_velocity=self.U)
            self.inter.time_step(dt=self.dt)
        # prescribed body motion (the harness plays the structural solver): translation AND rotation of every director frame
        from .c09 import rodrigues

        self.body.position_collection[...] += self.dt * self.body.velocity_collection
        for i in range(self.body.director_collection.shape[2]):
            Q = self.body.director_collection[:, :, i].copy()
            w_lab = Q.T @ self.body.omega_collection[:, i]
            self.body.director_collection[:, :, i] = Q @ rodrigues(w_lab, self.dt).T

    def public(self):
        return {"vorticity": self.sim.vorticity_field.copy(), "velocity": self.sim.velocity_field.copy(), "time": float(self.sim.time),
                "pm": self.inter.lag_grid_position_mismatch_field.copy(), "vm": self.inter.lag_grid_velocity_mismatch_field.copy(),
                "body_x": self.body.position_collection.copy(), "body_q": self.body.director_collection.copy(), "ftime": float(self.inter.time)}

    def ios(self):
        import sopht.utils as spu

        io = spu.EulerianFieldIO(position_field=self.sim.position_field,
                                 eulerian_fields_dict={"vorticity": self.sim.vorticity_field, "velocity": self.sim.velocity_field})
        fio = spu.IO(dim=len(self.shape), real_dtype=np.float64)
        fio.add_as_lagrangian_fields_for_io(lagrangian_grid=self.inter.forcing_grid.position_field, lagrangian_grid_name="forcing_grid",
                                            position_mismatch=self.inter.lag_grid_position_mismatch_field,
                                            velocity_mismatch=self.inter.lag_grid_velocity_mismatch_field)
        return io, fio

    def save(self, tag):
        io, fio = self.ios()
        io.save(f"flow_{tag}.h5", time=self.sim.time)
        fio.save(f"forcing_{tag}.h5", time=self.inter.time)
        np.savez(f"body_{tag}.npz", x=self.body.position_collection, v=self.body.velocity_collection, q=self.body.director_collection,
                 w=self.body.omega_collection)

    def load(self, tag):
        io, fio = self.ios()
        self.sim.time = float(io.load(f"flow_{tag}.h5"))
        self.inter.time = float(fio.load(f"forcing_{tag}.h5"))
        b = np.load(f"body_{tag}.npz")
        self.body.position_collection[...] = b["x"]
        self.body.velocity_collection[...] = b["v"]
        self.body.director_collection[...] = b["q"]
        self.body.omega_collection[...] = b["w"]


def close(a, b, tol):
    for k in a:
        x, y = np.asarray(a[k], dtype=float), np.asarray(b[k], dtype=float)
        if np.abs(x - y).max() > tol * (1 + np.abs(x).max()):
            return f"{k} differs by {np.abs(x - y).max():.3g}"
    return None


def crash_restore(chk, kind, K, seed, order="interact_first"):
    ref = Coupled(kind, seed, order)
    traj = [ref.public()]
    d = tempfile.mkdtemp(prefix="ckpt_")
    cwd = os.getcwd()
    os.chdir(d)
    try:
        for k in range(K):
            ref.save(k)
            ref.step()
            traj.append(ref.public())
        ref.save(K)
        # same construction, scratch garbage before every step: bit-identical
        rng = np.random.default_rng(seed + 99)
        dup = Coupled(kind, seed, order)
        for k in range(K):
            dup.step(poison_rng=rng)
            p = dup.public()
            chk.traces += 1
            bad = [n for n in p if not np.array_equal(np.asarray(p[n]), np.asarray(traj[k + 1][n]))]
            if bad:
                # two different objects (fresh FFTW plans): allow rounding, but report systematic differences
                err = close(p, traj[k + 1], 1e-11)
                if err:
                    chk.violation({"kind": "hidden_state", "run": kind}, f"{kind} run with garbage in all scratch before step {k + 1}: {err}")
        # crash at every step index k, restore into fresh objects, continue
        for k in range(0, K + 1):
            fresh = Coupled(kind, seed + 1000 + k, order)  # different initial contents everywhere: everything must come from the checkpoint
            fresh.load(k)
            flowstep.poison_scratch(fresh.sim, np.random.default_rng(k))
            p = fresh.public()
            err = None
            bad = [n for n in p if not np.array_equal(np.asarray(p[n]), np.asarray(traj[k][n]))]
            if bad:
                err = f"state restored at step {k} is not bit-identical in {bad}"
            for j in range(k, K):
                if err:
                    break
                fresh.step()
                err = close(fresh.public(), traj[j + 1], 1e-11)
                if err:
                    err = f"resumed at step {k}, after step {j + 1}: {err}"
            chk.traces += 1
            chk.count(("crash", kind, order, k, seed))
            if err:
                chk.violation({"kind": "resume", "run": kind, "k": k}, f"{kind} coupled run (loop order {order}): {err}")
    finally:
        os.chdir(cwd)
        shutil.rmtree(d, ignore_errors=True)


def run(chk: core.Check):
    shim.install()
    shim.set_backend("compile")
    quick = chk.tier == "quick"
    base = {"Indices": {3, 12, 10007}, "K": 3 if quick else 4, "HiddenState": False, "PickRule": "largest"}
    res = tlc.run_wrapped("Restart", base, INV + "ACTION_CONSTRAINT EmitHelper\n", workers="auto", timeout=1500)
    chk.add_tlc("Restart intended", res)
    r2 = tlc.run_wrapped("Restart", dict(base, HiddenState=True), INV, timeout=600)
    chk.add_tlc("control hidden state in scratch", r2, expect_violation="ResumeLaw")
    r3 = tlc.run_wrapped("Restart", dict(base, PickRule="first_found"), INV, timeout=600)
    chk.add_tlc("control helper picks the first checkpoint found", r3, expect_violation="HelperLaw")
    cases = tlc.dedupe(res.emits, lambda e: [e["flow"], e["rod"], e["forcing"], e["body_time"]])
    stride = 6 if quick else 1
    verdicts = set()
    for i, e in enumerate(cases):
        if i % stride != chk.seed % stride and e["result"]["kind"] != "ok":
            continue
        verdicts.add(e["result"]["kind"])
        try:
            err = helper_case(chk, e)
        except Exception as ex:
            err = f"harness exception {type(ex).__name__}: {ex}"
        chk.traces += 1
        chk.count(("helper", tlc.canon([e["flow"], e["rod"], e["forcing"], e["body_time"]])))
        if err:
            chk.violation({"kind": "restart_helper", "expected": e["result"]["kind"]}, f"restart_simulation with flow files {e['flow']}, rod files {e['rod']}, "
                          f"forcing files {e['forcing']}, body time {e['body_time']}: {err}", {"case": e})
        if len(chk.samples) < 3 and e["result"]["kind"] == "ok" and len(e["flow"]) > 1:
            chk.sample(e)
    if verdicts != {"ok", "FileNotFoundError", "ValueError", "missing_companion"}:
        raise core.MachineryError(f"helper verdicts replayed: {sorted(verdicts)} (every verdict must be exercised)")
    K = 3 if quick else 4
    for kind in ("2d", "3d"):
        for s in range(1 if quick else 3):
            # both loop orders in use: the 2-D run in the examples' order in the quick tier, every combination in the thorough tier
            orders = (("step_first",) if kind == "2d" else ("interact_first",)) if quick else ("interact_first", "step_first")
            for order in orders:
                crash_restore(chk, kind, K, chk.seed + s, order)
    chk.assumptions += [
        "file times are 10 x index; body time ranges over those values and one other; stray files whose names do not end in an integer "
        "are outside the helper's contract",
        "coupled runs use a prescribed body motion (the harness advances the body position with its velocity); the rod / cylinder "
        "state is checkpointed with numpy, flow and marker mismatch fields through the real IO classes",
        "resumed trajectories are compared at 1e-11 relative (fresh FFTW plans may sum in another order); restored states and the "
        "garbage-scratch run must be bit-identical / within rounding of the reference",
        "the statement 'no step reads scratch it did not write' is model checked on FlowStep.tla with arbitrary initial buffers (C01) "
        "and sampled here by poisoning",
    ]
    return ("case = restart-helper file-set scenario replayed with real files, and (run kind, crash step k) of real coupled runs resumed in "
            "fresh objects")
