"""X05 -- extended coverage: the XDMF descriptors written by `IO.save` (spec/IODescriptor.tla, a view of IO.tla's file layout).

TLC: for every registry scenario of IO.tla the descriptors of one save describe every stored dataset exactly once, with the
dataset's own element count, one descriptor per Lagrangian grid (fields or not), none for an unregistered Eulerian grid.
Binding: every scenario TLC emits is built with the real IO class (same builder as C17), saved, and the .xmf files actually
written are parsed (xml.etree) and compared with the specification's descriptor set: file set, HDF item paths, declared element
counts against the datasets in the .h5 file, time stamp.  Two further facts about the descriptors are REPORTED as observations
(they hold on no scenario, hence are not laws of the specification): the declared `Precision` versus the stored item size, and
the declared `Dimensions` of the inline origin / spacing items versus the number of values written (2-D).
Run with `./check X05`; not registered in MANIFEST.json."""
from __future__ import annotations

import os
import re
import shutil
import tempfile
import xml.etree.ElementTree as ET

import numpy as np

from . import c17, core, shim, tlc


def parse_xmf(path):
    """-> (time, [(h5 path, declared count, declared precision)], [(name, declared count, values written)])"""
    txt = open(path).read()
    txt = re.sub(r"<!DOCTYPE[^>]*>", "", txt)            # the DTD reference is not resolvable offline
    root = ET.fromstring(txt)
    tval = root.find(".//Time").get("Value")
    hdf, inline = [], []
    for di in root.iter("DataItem"):
        dims = [int(x) for x in di.get("Dimensions").split()]
        if di.get("Format") == "HDF":
            ref = di.text.strip()
            hdf.append((ref.split(":/", 1)[1], int(np.prod(dims)), int(di.get("Precision")), ref.split(":/", 1)[0]))
        else:
            inline.append((di.get("Name"), int(np.prod(dims)), len(di.text.split())))
    return tval, hdf, inline


def run(chk: core.Check):
    import h5py

    shim.install()
    rng = np.random.default_rng(chk.seed)
    base = {"ClassifyOrder": "vector_first", "LoadGuard": "grids"}
    r0 = tlc.run_wrapped("IODescriptor", dict(base, DescGuard="grids"),
                         "SPECIFICATION Spec\nINVARIANT Covers\nINVARIANT Disjoint\nINVARIANT Counts\nINVARIANT PerGrid\n", workers="auto", timeout=1200)
    chk.add_tlc("IODescriptor intended (one descriptor per stored grid)", r0)
    # what the code does (named deviation): Lagrangian descriptors only when some Lagrangian field is registered
    res = tlc.run_wrapped("IODescriptor", dict(base, DescGuard="fields"),
                          "SPECIFICATION Spec\nINVARIANT Disjoint\nINVARIANT Counts\nCONSTRAINT EmitDesc\n", workers="auto", timeout=1200)
    chk.add_tlc("IODescriptor as implemented (guard on fields)", res)
    r2 = tlc.run_wrapped("IODescriptor", dict(base, DescGuard="fields"), "SPECIFICATION Spec\nINVARIANT Covers\n", timeout=600)
    chk.add_tlc("observation: with the guard on fields, stored grids without any registered Lagrangian field are not described", r2, expect_violation="Covers")
    cases = tlc.dedupe([e for e in res.emits if e["cs"]["mis"] == "none"], lambda e: e["cs"])
    if not cases:
        raise core.MachineryError("no descriptor scenario emitted")
    if chk.tier == "quick":
        cases = cases[:: max(1, len(cases) // 400)]
    obs_precision, obs_inline = set(), set()
    d = tempfile.mkdtemp(prefix="xmf_")
    cwd = os.getcwd()
    os.chdir(d)
    try:
        for ci, e in enumerate(cases):
            cs = e["cs"]
            dim = cs["dim"]
            dtype = (np.float64, np.float32)[ci % 2]
            grid_size = [3, 4] if dim == 2 else [2, 3, 4]
            io, arrs = c17.build(cs, dtype, rng, grid_size, [0.125, 0.5, -1.0][:dim], [0.25] * dim)
            for f in os.listdir("."):
                os.remove(f)
            tstamp = 0.5 + ci
            io.save("snap.h5", time=tstamp)
            chk.traces += 1
            chk.count(tlc.canon(cs))
            errs = []
            want_files = {f"snap_{x['file']}.xmf" for x in e["desc"]}
            got_files = {f for f in os.listdir(".") if f.endswith(".xmf")}
            if got_files != want_files:
                errs.append(f"descriptor files written {sorted(got_files)}, specification {sorted(want_files)}")
            with h5py.File("snap.h5", "r") as h5:
                for x in e["desc"]:
                    fn = f"snap_{x['file']}.xmf"
                    if fn not in got_files:
                        continue
                    try:
                        tval, hdf, inline = parse_xmf(fn)
                    except Exception as ex:
                        errs.append(f"{fn} is not well-formed: {type(ex).__name__}: {ex}")
                        continue
                    if float(tval) != tstamp:
                        errs.append(f"{fn}: time {tval} != saved time {tstamp}")
                    want_paths = {c17.spec_path_to_h5(i["path"]) for i in x["items"]}
                    got_paths = {p for p, _, _, _ in hdf}
                    if got_paths != want_paths:
                        errs.append(f"{fn}: describes {sorted(got_paths)}, specification {sorted(want_paths)}")
                    for p, count, prec, ref_file in hdf:
                        if ref_file != "snap.h5":
                            errs.append(f"{fn}: item {p} refers to file {ref_file}")
                        if p not in h5:
                            errs.append(f"{fn}: item {p} does not exist in the file")
                            continue
                        if int(np.prod(h5[p].shape)) != count:
                            errs.append(f"{fn}: item {p} declares {count} elements, the dataset holds {h5[p].shape}")
                        if h5[p].dtype.itemsize != prec:
                            obs_precision.add((str(h5[p].dtype), prec))
                    for name, count, nvals in inline:
                        if count != nvals:
                            obs_inline.add((dim, name, count, nvals))
            for er in errs[:3]:
                chk.violation({"kind": "xdmf", "dim": dim}, f"scenario {cs} ({dtype.__name__}): {er}")
            if len(chk.samples) < 2 and len(e["desc"]) > 1:
                chk.sample({"cs": cs, "descriptors": e["desc"]})
    finally:
        os.chdir(cwd)
        shutil.rmtree(d, ignore_errors=True)
    chk.extra["observations"] = {
        "declared Precision vs stored item size (dtype, declared)": sorted(obs_precision),
        "inline items: (dim, name, declared element count, values written)": sorted(obs_inline),
    }
    print("OBSERVATION X05: IO.save writes the Lagrangian descriptors only if at least one Lagrangian FIELD is registered (`if self.lagrangian_fields`): "
          "a registry holding grids without fields stores the grids in the .h5 file but describes none of them (TLC: Covers refuted for DescGuard = fields)")
    for o in sorted(obs_precision):
        print(f"OBSERVATION X05: datasets of dtype {o[0]} are declared with Precision=\"{o[1]}\" (XDMF counts bytes: {np.dtype(o[0]).itemsize})")
    for o in sorted(obs_inline):
        print(f"OBSERVATION X05: {o[0]}-D descriptor: inline item {o[1]} declares {o[2]} values and writes {o[3]}")
    return "case = registry scenario of IO.tla x precision: descriptors written by the real IO.save parsed and compared with the specification"
