"""Shared plumbing of the checks: tiers/seeds, evidence files, violations, known findings."""
from __future__ import annotations

import json
import os
import sys
import time
import warnings

ROOT = os.path.dirname(os.path.dirname(os.path.abspath(__file__)))
EVID = os.path.join(ROOT, "evidence")
if os.environ.get("SOPHT_REPO", "/repo").rstrip("/") != "/repo":
    # self-test runs against a mutated copy never touch the committed evidence
    EVID = os.path.join(ROOT, "out", "mut_evidence")
REPLAY = os.path.join(ROOT, "out", "replay")
KNOWN = os.path.join(ROOT, "known_findings.json")


class MachineryError(Exception):
    """The checker itself failed (exit 2); never reported as a property violation."""


def quiet():
    warnings.filterwarnings("ignore")
    os.environ.setdefault("NUMBA_DISABLE_PERFORMANCE_WARNINGS", "1")
    import logging

    logging.disable(logging.WARNING)


def jsonable(x):
    import fractions

    try:
        import numpy as np
    except Exception:  # pragma: no cover
        np = None
    if isinstance(x, dict):
        return {str(k): jsonable(v) for k, v in x.items()}
    if isinstance(x, (list, tuple)):
        return [jsonable(v) for v in x]
    if isinstance(x, fractions.Fraction):
        return f"{x.numerator}/{x.denominator}"
    if np is not None:
        if isinstance(x, np.ndarray):
            return jsonable(x.tolist())
        if isinstance(x, np.generic):
            return x.item()
    if isinstance(x, (str, int, float, bool)) or x is None:
        return x
    return repr(x)


class Check:
    """One run of one property's check."""

    def __init__(self, prop: str, tier: str, seed: int):
        self.prop = prop
        self.tier = tier
        self.seed = seed
        self.t0 = time.time()
        self.states = 0
        self.transitions = 0
        self.traces = 0  # behaviours / traces validated against the implementation
        self.evaluations = 0
        self.nontrivial = set()
        self.samples = []
        self.violations = []  # dicts: {key:{...}, text:..., replay: path}
        self.known_hits = []
        self.notes = []
        self.assumptions = []
        self.tlc_runs = []
        self.extra = {}
        with open(KNOWN) as fh:
            self.known = [k for k in json.load(fh)["findings"] if k["property"] == prop]

    # ---- TLC bookkeeping -------------------------------------------------------------
    def add_tlc(self, name, res, expect_violation=None):
        """Record a TLC run. expect_violation=None: must pass; str: must be refuted with
        that invariant/property (negative control)."""
        self.states += res.distinct
        self.transitions += res.generated
        self.tlc_runs.append({"name": name, **res.summary(), "expected_violation": expect_violation})
        if res.error:
            raise MachineryError(f"TLC run {name}: {res.error[:1500]}")
        if expect_violation is None:
            if res.violation:
                self.violation(
                    {"kind": "model", "run": name, "invariant": res.violation},
                    f"TLC refutes {res.violation} on the intended specification ({name})",
                    {"trace": res.trace[:400]},
                )
        else:
            if res.violation != expect_violation:
                raise MachineryError(
                    f"negative control {name}: expected TLC to refute {expect_violation}, got "
                    f"{res.violation!r} (vacuous property?)"
                )

    # ---- samples / counting ---------------------------------------------------------
    def sample(self, s, limit=4):
        if len(self.samples) < limit:
            self.samples.append(jsonable(s))

    def count(self, key=None):
        self.evaluations += 1
        if key is not None:
            self.nontrivial.add(key)

    # ---- violations -------------------------------------------------------------------
    def violation(self, key: dict, text: str, detail=None):
        """key identifies the failing input / call site; matched against known findings."""
        for k in self.known:
            if k.get("status", "open") != "open":
                continue
            m = k["match"]
            if all(key.get(a) == b for a, b in m.items()):
                hit = (k["id"], k["text"])
                if hit not in self.known_hits:
                    self.known_hits.append(hit)
                return
        os.makedirs(REPLAY, exist_ok=True)
        path = os.path.join(REPLAY, f"{self.prop}_{len(self.violations):03d}.json")
        with open(path, "w") as fh:
            json.dump(jsonable({"property": self.prop, "key": key, "text": text, "detail": detail}), fh, indent=1)
        self.violations.append({"key": key, "text": text, "replay": path})

    # ---- finish ------------------------------------------------------------------------
    def finish(self, rule: str, level="model_checking") -> int:
        global EVID
        if not self.prop.startswith("C"):
            # extended-coverage runs (X..) are not registered checks: their record stays out of evidence/
            EVID = os.path.join(ROOT, "out", "extra_evidence")
        os.makedirs(EVID, exist_ok=True)
        cov = {
            "states": int(self.states),
            "transitions": int(self.transitions),
            "traces_validated_against_impl": int(self.traces),
            "samples": self.samples or [{"note": "no sample recorded"}],
            "evaluations": int(self.evaluations),
            "distinct_nontrivial": len(self.nontrivial),
            "rule": rule,
            "tlc_runs": self.tlc_runs,
            "known_findings_hit": [h[0] for h in self.known_hits],
            "violations_detail": [{"key": v["key"], "text": v["text"][:500]} for v in self.violations[:20]],
        }
        cov.update(self.extra)
        ev = {
            "property_id": self.prop,
            "tier": self.tier,
            "seed": int(self.seed),
            "level": level,
            "coverage": jsonable(cov),
            "assumptions": self.assumptions,
            "wall_s": round(time.time() - self.t0, 2),
            "violations": len(self.violations),
        }
        with open(os.path.join(EVID, f"{self.prop}.json"), "w") as fh:
            json.dump(ev, fh, indent=1)
        for hid, text in self.known_hits:
            print(f"KNOWN-FINDING: property={self.prop} {hid}: {text}")
        for v in self.violations[:25]:
            print(f"VIOLATION property={self.prop} replay={v['replay']}")
            print(f"  {v['text'][:600]}")
        print(
            f"[{self.prop}] tier={self.tier} seed={self.seed} states={self.states} transitions={self.transitions} "
            f"replayed={self.traces} evaluations={self.evaluations} violations={len(self.violations)} "
            f"known={len(self.known_hits)} wall={time.time() - self.t0:.1f}s"
        )
        return 1 if self.violations else 0
