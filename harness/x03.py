"""X03 -- extended coverage: the Lagrangian Brinkmann-penalisation feedback (spec/Brinkmann.tla) bound to the real
sopht.numeric.immersed_boundary_ops.experimental.BrinkmannBoundaryForcing.

TLC: every interleaving of {interact(b, L = lambda dt), move body, change flow, consume} of one or two bodies sharing one
Eulerian flux field, accumulate and reset mode; the hidden-state variant (previous penalised velocity reused as the flow
velocity) and the overshooting variant are refuted.  Binding: behaviours emitted by TLC's simulation mode are replayed action
by action into the real objects (markers on cell centres: dyadic weights, uniform flow) with the projected state compared
after EVERY action; then the laws are evaluated on the code's own arrays for random marker sets / velocity fields.
Run with `./check X03`; not registered in MANIFEST.json."""
from __future__ import annotations

from fractions import Fraction

import numpy as np

from . import core, shim, tlc

INV = ("SPECIFICATION Spec\nINVARIANT PenLaw\nINVARIANT FluxLaw\nINVARIANT NoOvershoot\nINVARIANT SlipLaw\nINVARIANT Superpose\n"
       "PROPERTY Memoryless\nPROPERTY FrameCond\nPROPERTY FieldLaw\nCHECK_DEADLOCK FALSE\n")
LAMBDA = 4.0     # brinkmann_coeff of the real objects; dt = L / LAMBDA


def fp(a):
    return a.tobytes()


class Rig:
    def __init__(self, D, nbodies, reset, real_t, N=3):
        from sopht.numeric.immersed_boundary_ops.experimental.BrinkmannBoundaryForcing import BrinkmannBoundaryForcing

        self.D, self.real_t, self.N = D, real_t, N
        self.h = 0.5
        self.grid = (8, 12) if D == 2 else (8, 9, 13)       # (.., y, x): non-cubic
        self.vel = np.zeros((D,) + self.grid, dtype=real_t)
        self.fluxfield = np.zeros((D,) + self.grid, dtype=real_t)
        self.objs, self.pos, self.vb = {}, {}, {}
        for b in range(1, nbodies + 1):
            self.objs[b] = BrinkmannBoundaryForcing(brinkmann_coeff=real_t(LAMBDA), grid_dim=D, dx=real_t(self.h), eul_grid_coord_shift=real_t(self.h / 2),
                                                    num_lag_nodes=N, interp_kernel_width=2, real_t=real_t, enable_eul_grid_flux_reset=reset)
            self.vb[b] = np.zeros((D, N), dtype=real_t)

    def place(self, b, rng):
        ext = [self.grid[self.D - 1 - k] for k in range(self.D)]
        cells = np.stack([rng.integers(2, n - 3, self.N) for n in ext])
        cells[:, 0] = [n - 4 for n in ext]
        self.pos[b] = ((cells + 0.5) * self.h).astype(self.real_t)


_RIGS: dict = {}


def fresh_rig(D, nb, reset, real_t, rng):
    key = (D, nb, reset, real_t)
    if key not in _RIGS:
        _RIGS[key] = Rig(D, nb, reset, real_t)
    rig = _RIGS[key]
    rig.vel[...] = 0
    rig.fluxfield[...] = 0
    for b in rig.objs:
        rig.place(b, rng)
        rig.vb[b][...] = 0
    return rig


def q(x):
    return Fraction(x[0], x[1])


def replay_behaviour(steps, u0, D, reset, real_t, rng):
    def get(s, name, b):
        x = s[name]
        return x[b - 1] if isinstance(x, list) else x[str(b)]

    nb = len(steps[0]["v"])
    rig = fresh_rig(D, nb, reset, real_t, rng)
    eps = float(np.finfo(real_t).eps)
    first = steps[0]
    # environment before the first action: the first snapshot's, unless the first action changed it
    # (the first snapshot is a post-state; if the first action changed the environment its pre-state was never observed by anything)
    rig.vel[...] = real_t(u0)
    for b in range(1, nb + 1):
        rig.vb[b][...] = real_t(get(first, "v", b))
    for si, s in enumerate(steps):
        act, b, L = s["last"]["act"], s["last"]["b"], s["last"]["l"]
        vel_fp = fp(rig.vel)
        vb_fp = {k: fp(x) for k, x in rig.vb.items()}
        pos_fp = {k: fp(x) for k, x in rig.pos.items()}
        before = rig.fluxfield.copy()
        dt = L / LAMBDA
        if act == "flow":
            rig.vel[...] = real_t(s["u"])
        elif act == "move":
            rig.vb[b][...] = real_t(get(s, "v", b))
            rig.place(b, rng)
        elif act == "consume":
            rig.fluxfield[...] = 0
        elif act == "interact":
            rig.objs[b].compute_interaction_forcing(
                eul_grid_penalisation_flux=rig.fluxfield, eul_grid_velocity_field=rig.vel, lag_grid_position_field=rig.pos[b],
                lag_grid_velocity_field=rig.vb[b], dt=real_t(dt))
        else:
            raise core.MachineryError(f"unknown action {act}")
        for k, o in rig.objs.items():
            want_pen, want_flux = float(q(get(s, "pen", k))), float(q(get(s, "flux", k)))
            if act == "interact" and k == b:
                got = {"penalised velocity": (o.lag_grid_penalised_velocity_field, want_pen), "penalisation flux": (o.lag_grid_penalisation_flux, want_flux),
                       "penalisation forcing": (o.lag_grid_penalisation_forcing, want_flux * rig.h**D / dt)}
                for name, (arr, want) in got.items():
                    if not np.all(np.abs(arr.astype(float) - want) <= 8 * eps * (abs(want) + 8)):
                        return f"step {si} (interact body {b}, lambda dt = {L}): {name} = {np.unique(arr)} but the specification gives {want}"
        tot = rig.fluxfield.reshape(D, -1).sum(axis=1).astype(float)
        want_tot = float(sum(Fraction(e[1], e[2]) for e in s["eul"])) * rig.N
        if not np.all(np.abs(tot - want_tot) <= 64 * eps * (abs(want_tot) + 8 * rig.N)):
            return f"step {si} ({act} body {b}): sum of the shared flux field = {tot} but the specification gives {want_tot} (events {s['eul']})"
        if act in ("move", "flow") and not np.array_equal(rig.fluxfield, before):
            return f"step {si}: action {act} modified the Eulerian flux field"
        if act == "interact":
            if fp(rig.vel) != vel_fp:
                return f"step {si}: interact modified the flow velocity field"
            if any(fp(rig.vb[k]) != vb_fp[k] or fp(rig.pos[k]) != pos_fp[k] for k in rig.vb):
                return f"step {si}: interact modified the body marker state"
    return None


def laws_on_code(chk, rng, quick):
    """random marker sets / non-uniform velocity fields: the laws on the code's own arrays."""
    from sopht.numeric.immersed_boundary_ops.experimental.BrinkmannBoundaryForcing import BrinkmannBoundaryForcing

    for D in (2, 3):
        for real_t in (np.float64, np.float32):
            for reset in (False, True):
                N = 7
                h = 0.25
                grid = (12, 17) if D == 2 else (9, 12, 15)
                lam = 3.0
                o = BrinkmannBoundaryForcing(brinkmann_coeff=real_t(lam), grid_dim=D, dx=real_t(h), eul_grid_coord_shift=real_t(h / 2), num_lag_nodes=N,
                                             interp_kernel_width=2, real_t=real_t, enable_eul_grid_flux_reset=reset)
                eps = float(np.finfo(real_t).eps)
                field = np.zeros((D,) + grid, dtype=real_t)
                prev_sum = np.zeros(D)
                for rep in range(3 if quick else 12):
                    ext = np.array([grid[D - 1 - k] for k in range(D)])
                    pos = ((rng.integers(2, ext - 3, (N, D)).T + rng.random((D, N))) * h + h / 2).astype(real_t)
                    vel = rng.integers(-4, 5, (D,) + grid).astype(real_t)
                    vb = rng.integers(-4, 5, (D, N)).astype(real_t)
                    dt = float(rng.choice([0.125, 0.5, 1.0, 3.0]))
                    # hidden state must not matter: dirty every public work array first
                    for name in ("lag_grid_flow_velocity_field", "lag_grid_penalised_velocity_field", "lag_grid_penalisation_flux", "lag_grid_penalisation_forcing"):
                        getattr(o, name)[...] = rng.integers(-9, 10, (D, N))
                    o.compute_interaction_forcing(eul_grid_penalisation_flux=field, eul_grid_velocity_field=vel, lag_grid_position_field=pos,
                                                  lag_grid_velocity_field=vb, dt=real_t(dt))
                    chk.traces += 1
                    chk.count(("laws", D, real_t.__name__, reset, rep))
                    uI = o.lag_grid_flow_velocity_field.astype(float)
                    # independent interpolation of the velocity (documented cosine kernel, tensor product)
                    ref = np.zeros((D, N))
                    for m in range(N):
                        idx = [int(np.floor((float(pos[k, m]) - h / 2) / h)) for k in range(D)]
                        w = np.ones((4,) * D)
                        for k in range(D):
                            d = np.array([(idx[k] + j) + 0.5 - float(pos[k, m]) / h for j in (-1, 0, 1, 2)])
                            ph = np.where(np.abs(d) < 2, 0.25 * (1 + np.cos(np.pi * d / 2)), 0.0)
                            sh = [1] * D
                            sh[D - 1 - k] = 4
                            w = w * ph.reshape(sh)
                        sl = tuple(slice(idx[D - 1 - a] - 1, idx[D - 1 - a] + 3) for a in range(D))
                        for c in range(D):
                            ref[c, m] = float((vel[c].astype(float)[sl] * w).sum())
                    errs = []
                    L = lam * dt
                    if np.abs(uI - ref).max() > 64 * eps * 8:
                        errs.append(f"interpolated flow velocity differs from the documented kernel by {np.abs(uI - ref).max():.3g}")
                    pen = (uI + L * vb.astype(float)) / (1 + L)
                    if np.abs(o.lag_grid_penalised_velocity_field - pen).max() > 16 * eps * 8:
                        errs.append("penalised velocity != (u + lambda dt v) / (1 + lambda dt)")
                    flux = o.lag_grid_penalisation_flux.astype(float)
                    if np.abs(flux - L * (vb - uI) / (1 + L)).max() > 16 * eps * 8:
                        errs.append("flux != lambda dt (v - u) / (1 + lambda dt)")
                    if np.any(flux * (vb - uI) < -64 * eps) or np.any(np.abs(flux) > np.abs(vb - uI) * (1 + 16 * eps) + 16 * eps):
                        errs.append("flux overshoots or points away from the body velocity")
                    if np.abs(o.lag_grid_penalisation_forcing - flux * h**D / dt).max() > 16 * eps * 8 / dt:
                        errs.append("forcing != dx^D flux / dt")
                    tot = field.reshape(D, -1).sum(axis=1).astype(float)
                    want = flux.sum(axis=1) + (0 if reset else prev_sum)
                    if np.abs(tot - want).max() > 256 * eps * (np.abs(flux).sum() + np.abs(prev_sum).sum() + 1):
                        errs.append(f"sum of the Eulerian flux field {tot} != sum of the marker fluxes {want} ({'reset' if reset else 'accumulate'} mode)")
                    prev_sum = tot
                    for er in errs[:2]:
                        chk.violation({"kind": "brinkmann_law", "dim": D}, f"BrinkmannBoundaryForcing D={D} {real_t.__name__} reset={reset}: {er}")


def apalache_induction(chk):
    """unbounded velocities / lambda dt / histories: the laws are an inductive invariant (spec/BrinkmannInd.tla, Apalache)."""
    import os
    import shutil
    import subprocess
    import tempfile

    d = tempfile.mkdtemp(prefix="apa_")
    try:
        shutil.copy(os.path.join(tlc.SPEC_DIR, "BrinkmannInd.tla"), d)
        runs = [("init implies invariant", ["--init=Init", "--inv=IndInv", "--length=0"], True),
                ("inductive step", ["--init=IndInit", "--inv=IndInv", "--length=1"], True),
                ("control: hidden state is not inductive", ["--init=IndInit", "--next=NextBad", "--inv=IndInv", "--length=1"], False)]
        for name, args, want_ok in runs:
            p = subprocess.run(["apalache-mc", "check", *args, f"--out-dir={d}/out", "BrinkmannInd.tla"], cwd=d, capture_output=True, text=True, timeout=900)
            ok = "EXITCODE: OK" in p.stdout
            viol = "Found" in p.stdout and "error" in p.stdout
            chk.tlc_runs.append({"name": "apalache " + name, "ok": ok, "violation": viol})
            if want_ok and not ok:
                if viol:
                    chk.violation({"kind": "model", "run": "apalache " + name}, f"Apalache refutes the inductive invariant of the Brinkmann law ({name})", {"tail": p.stdout[-600:]})
                else:
                    raise core.MachineryError(f"apalache {name}: {p.stdout[-600:]}")
            if not want_ok and ok:
                raise core.MachineryError("apalache negative control accepted: the inductive check is vacuous")
        chk.extra["apalache_obligations_discharged"] = len(runs)
    finally:
        shutil.rmtree(d, ignore_errors=True)


def run(chk: core.Check):
    shim.install()
    shim.set_backend("compile")
    quick = chk.tier == "quick"
    rng = np.random.default_rng(chk.seed)
    raw = {"Vals": "{-2, 0, 1, 3}", "Ls": "{1, 2, 3}"}
    base = {"Bodies": {1, 2}, "MaxSteps": 5 if quick else 6, "Stateful": False, "Overshoot": False, "KeepTrail": False}
    for reset in (False, True):
        res = tlc.run_wrapped("Brinkmann", dict(base, ResetMode=reset), INV, raw=raw, timeout=3000)
        chk.add_tlc(f"Brinkmann 2 bodies reset={reset}", res)
    res = tlc.run_wrapped("Brinkmann", dict(base, Bodies={1}, ResetMode=False, Stateful=True, MaxSteps=3),
                          "SPECIFICATION Spec\nPROPERTY Memoryless\nCHECK_DEADLOCK FALSE\n", raw=raw, timeout=600)
    chk.add_tlc("control hidden state", res, expect_violation="Memoryless")
    res = tlc.run_wrapped("Brinkmann", dict(base, Bodies={1}, ResetMode=False, Overshoot=True, MaxSteps=2),
                          "SPECIFICATION Spec\nINVARIANT NoOvershoot\nCHECK_DEADLOCK FALSE\n", raw=raw, timeout=600)
    chk.add_tlc("control overshoot", res, expect_violation="NoOvershoot")
    nbeh = 0
    for reset in (False, True):
        for nb in (1, 2):
            res = tlc.run_wrapped("Brinkmann", dict(base, Bodies=set(range(1, nb + 1)), ResetMode=reset, MaxSteps=10, KeepTrail=True),
                                  "SPECIFICATION Spec\nCONSTRAINT EmitTrail\nCHECK_DEADLOCK FALSE\n", raw=raw, mode="simulate",
                                  simulate={"num": 6 if quick else 40, "depth": 11}, seed=chk.seed + nb, timeout=900)
            chk.add_tlc(f"emit Brinkmann bodies={nb} reset={reset}", res)
            behs = tlc.dedupe(res.emits, lambda e: e["trail"])
            if quick:
                behs = behs[:12]
            for e in behs:
                for D in (2, 3):
                    for real_t in (np.float64, np.float32):
                        try:
                            err = replay_behaviour(e["trail"], e["u0"], D, reset, real_t, rng)
                        except core.MachineryError:
                            raise
                        except Exception as ex:
                            err = f"exception {type(ex).__name__}: {ex}"
                        chk.traces += 1
                        nbeh += 1
                        chk.count((D, real_t.__name__, reset, nb, tlc.canon([s["last"] for s in e["trail"]])))
                        if err:
                            chk.violation({"kind": "brinkmann_replay", "dim": D}, f"BrinkmannBoundaryForcing D={D} {real_t.__name__} reset={reset}, "
                                          f"history {[(s['last']['act'], s['last']['b'], s['last']['l']) for s in e['trail']]}: {err}")
                if len(chk.samples) < 2:
                    chk.sample({"history": [s["last"] for s in e["trail"]], "final": e["trail"][-1]})
    if nbeh == 0:
        raise core.MachineryError("no Brinkmann behaviour was replayed")
    laws_on_code(chk, rng, quick)
    apalache_induction(chk)
    return "case = TLC-emitted call history x dimension x precision replayed into the real objects; random marker sets with the laws on the code's arrays"
