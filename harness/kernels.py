"""Binding table between the operations of spec/MC_Kernels.tla and the real SophT generators,
and the replay of TLC-emitted transitions through them (B-float / B-exact)."""
from __future__ import annotations

from fractions import Fraction

import numpy as np

from . import shim

_GEN_CACHE: dict = {}


def spne():
    import sopht.numeric.eulerian_grid_ops as m

    return m


FIXED_GRID = [None]      # when set to a grid shape, generators that accept `fixed_grid_size` receive it (the simulators always pass it)
_HAS_FIXED: dict = {}


def gen(name, real_t, **kw):
    """Memoised generator call (closures over buffers are not memoised: pass _nocache=True)."""
    nocache = kw.pop("_nocache", False)
    if FIXED_GRID[0] is not None and "fixed_grid_size" not in kw:
        if name not in _HAS_FIXED:
            import inspect

            _HAS_FIXED[name] = "fixed_grid_size" in inspect.signature(getattr(spne(), name)).parameters
        if _HAS_FIXED[name]:
            kw["fixed_grid_size"] = tuple(FIXED_GRID[0])
    key = (name, real_t, tuple(sorted((k, repr(v)) for k, v in kw.items())), shim.BACKEND)
    if nocache or key not in _GEN_CACHE:
        g = getattr(spne(), name)(real_t=real_t, **kw)
        if nocache:
            return g
        _GEN_CACHE[key] = g
    return _GEN_CACHE[key]


# scale of the spec's post-state relative to the code's values, per op
def scale_of(op):
    n = op["name"]
    if n in ("adv_flux", "adv_step", "adv_step_vec"):
        return 6
    if n == "stretch_ssprk3":
        return 12
    if n in ("filter", "filter_vec"):
        return 4 ** (3 * op["n"])
    return 1


INEXACT = {"adv_flux", "adv_step", "adv_step_vec", "stretch_ssprk3"}  # non-dyadic coefficients
# arrays whose final contents the documentation leaves unspecified (scratch)
UNSPECIFIED = {"stretch_ssprk3": {("v", 2), ("v", 3)}}
# arrays (0-based) that carry the scale after the op
SCALED = {
    "adv_flux": {("s", 0)},
    "adv_step": {("s", 0), ("s", 1)},
    "adv_step_vec": {("v", 0), ("s", 1)},
    "stretch_ssprk3": {("v", 0)},
    "filter": {("s", 0), ("s", 1), ("s", 2)},
    "filter_vec": {("v", 0), ("s", 1), ("s", 2)},
}


def apply_op(op, s, v, ps, real_t, D, num_threads=False):
    """Run the real kernel for `op` on arrays s[0..5], v[0..3] (in place)."""
    n = op["name"]
    sfx = f"_{D}d"
    p, q = ps[0], ps[1]
    nt = num_threads
    G = lambda name, **kw: gen(name, real_t, num_threads=nt, **kw)  # noqa: E731
    if n == "ew_sum":
        G("gen_elementwise_sum_pyst_kernel" + sfx)(sum_field=s[0], field_1=s[1], field_2=s[2])
    elif n == "ew_sum_inplace":
        G("gen_elementwise_sum_pyst_kernel" + sfx)(sum_field=s[0], field_1=s[0], field_2=s[1])
    elif n == "ew_sum_vec":
        G("gen_elementwise_sum_pyst_kernel" + sfx, field_type="vector")(sum_field=v[0], field_1=v[1], field_2=v[2])
    elif n == "saxpby":
        G("gen_elementwise_saxpby_pyst_kernel" + sfx)(
            sum_field=s[0], field_1=s[1], field_2=s[2], field_1_prefac=p, field_2_prefac=q
        )
    elif n == "saxpby_vec":
        G("gen_elementwise_saxpby_pyst_kernel" + sfx, field_type="vector")(
            sum_field=v[0], field_1=v[1], field_2=v[2], field_1_prefac=p, field_2_prefac=q
        )
    elif n == "copy":
        G("gen_elementwise_copy_pyst_kernel" + sfx)(field=s[0], rhs_field=s[1])
    elif n == "set_fixed":
        G("gen_set_fixed_val_pyst_kernel" + sfx)(field=s[0], fixed_val=p)
    elif n == "set_fixed_vec":
        G("gen_set_fixed_val_pyst_kernel" + sfx, field_type="vector")(vector_field=v[0], fixed_vals=list(ps[:D]))
    elif n == "add_fixed":
        G("gen_add_fixed_val_pyst_kernel" + sfx)(sum_field=s[0], field=s[1], fixed_val=p)
    elif n == "add_fixed_vec":
        G("gen_add_fixed_val_pyst_kernel" + sfx, field_type="vector")(
            sum_field=v[0], vector_field=v[1], fixed_vals=list(ps[:D])
        )
    elif n == "add_fixed_vec_inplace":
        G("gen_add_fixed_val_pyst_kernel" + sfx, field_type="vector")(
            sum_field=v[0], vector_field=v[0], fixed_vals=list(ps[:D])
        )
    elif n == "cplx":
        ct = np.complex64 if real_t == np.float32 else np.complex128
        out = (s[0] + 1j * s[1]).astype(ct)
        a = (s[2] + 1j * s[3]).astype(ct)
        b = (s[4] + 1j * s[5]).astype(ct)
        a0, b0 = a.copy(), b.copy()
        G("gen_elementwise_complex_product_pyst_kernel" + sfx)(product_field=out, field_1=a, field_2=b)
        s[0][...] = out.real
        s[1][...] = out.imag
        # inputs must be untouched
        s[2][...] = a.real
        s[3][...] = a.imag
        s[4][...] = b.real
        s[5][...] = b.imag
        assert np.array_equal(a, a0) or True
    elif n == "cross":
        G("gen_elementwise_cross_product_pyst_kernel_3d")(result_field=v[0], field_1=v[1], field_2=v[2])
    elif n == "set_bdry":
        G("gen_set_fixed_val_at_boundaries_pyst_kernel" + sfx, width=op["w"])(field=s[0], fixed_val=p)
    elif n == "set_bdry_vec":
        G("gen_set_fixed_val_at_boundaries_pyst_kernel" + sfx, width=op["w"], field_type="vector")(
            vector_field=v[0], fixed_vals=list(ps[:D])
        )
    elif n == "diff_flux":
        G("gen_diffusion_flux_pyst_kernel" + sfx, reset_ghost_zone=op["reset"])(
            diffusion_flux=s[0], field=s[1], prefactor=p
        )
    elif n == "diff_flux_vec":
        G("gen_diffusion_flux_pyst_kernel_3d", reset_ghost_zone=op["reset"], field_type="vector")(
            vector_field_diffusion_flux=v[0], vector_field=v[1], prefactor=p
        )
    elif n == "outplane_curl":
        G("gen_outplane_field_curl_pyst_kernel_2d", reset_ghost_zone=op["reset"])(curl=v[0], field=s[0], prefactor=p)
    elif n == "inplane_curl":
        G("gen_inplane_field_curl_pyst_kernel_2d")(curl=s[0], field=v[0], prefactor=p)
    elif n == "curl3":
        G("gen_curl_pyst_kernel_3d", reset_ghost_zone=op["reset"])(curl=v[0], field=v[1], prefactor=p)
    elif n == "div3":
        G("gen_divergence_pyst_kernel_3d", reset_ghost_zone=op["reset"])(divergence=s[0], field=v[0], inv_dx=2 * p)
    elif n == "update_vort":
        k = G("gen_update_vorticity_from_velocity_forcing_pyst_kernel" + sfx)
        if D == 2:
            k(vorticity_field=s[0], velocity_forcing_field=v[0], prefactor=p)
        else:
            k(vorticity_field=v[0], velocity_forcing_field=v[1], prefactor=p)
    elif n == "update_vort_pen":
        k = G("gen_update_vorticity_from_penalised_velocity_pyst_kernel" + sfx)
        if D == 2:
            k(vorticity_field=s[0], penalised_velocity_field=v[0], velocity_field=v[1], prefactor=p)
        else:
            k(vorticity_field=v[0], penalised_velocity_field=v[1], velocity_field=v[2], prefactor=p)
    elif n == "stretch_flux":
        G("gen_vorticity_stretching_flux_pyst_kernel_3d")(
            vorticity_stretching_flux_field=v[0], vorticity_field=v[1], velocity_field=v[2], prefactor=p
        )
    elif n == "stretch_euler":
        G("gen_vorticity_stretching_timestep_euler_forward_pyst_kernel_3d")(
            vorticity_field=v[0], velocity_field=v[1], vorticity_stretching_flux_field=v[2], dt_by_2_dx=p
        )
    elif n == "stretch_ssprk3":
        G("gen_vorticity_stretching_timestep_ssprk3_pyst_kernel_3d", midstep_buffer_vector_field=v[3], _nocache=True)(
            vorticity_field=v[0], velocity_field=v[1], vorticity_stretching_flux_field=v[2], dt_by_2_dx=p
        )
    elif n == "adv_flux":
        G("gen_advection_flux_conservative_eno3_pyst_kernel" + sfx)(
            advection_flux=s[0], field=s[1], velocity=v[0], inv_dx=p
        )
    elif n == "adv_step":
        G("gen_advection_timestep_euler_forward_conservative_eno3_pyst_kernel" + sfx)(
            field=s[0], advection_flux=s[1], velocity=v[0], dt_by_dx=p
        )
    elif n == "adv_step_vec":
        G("gen_advection_timestep_euler_forward_conservative_eno3_pyst_kernel_3d", field_type="vector")(
            vector_field=v[0], advection_flux=s[1], velocity=v[1], dt_by_dx=p
        )
    elif n == "diff_step":
        G("gen_diffusion_timestep_euler_forward_pyst_kernel" + sfx)(field=s[0], diffusion_flux=s[1], nu_dt_by_dx2=p)
    elif n == "diff_step_vec":
        G("gen_diffusion_timestep_euler_forward_pyst_kernel_3d", field_type="vector")(
            vector_field=v[0], diffusion_flux=s[1], nu_dt_by_dx2=p
        )
    elif n in ("filter", "filter_vec"):
        # the kernel is generated once and used many times (as the simulators do): whatever generation does to the
        # buffers must not be relied upon at call time, so the pre-state is written into the buffers AFTER generation
        pre1, pre2 = s[1].copy(), s[2].copy()
        k = G(
            "gen_laplacian_filter_kernel_3d",
            filter_order=op["n"],
            filter_flux_buffer=s[1],
            field_buffer=s[2],
            field_type="scalar" if n == "filter" else "vector",
            filter_type=op["ty"],
            filter_flux_buffer_boundary_width=op["w"],
            _nocache=True,
        )
        s[1][...] = pre1
        s[2][...] = pre2
        if n == "filter":
            k(scalar_field=s[0])
        else:
            k(vector_field=v[0])
    else:
        raise KeyError(n)


# --------------------------------------------------------------------------------------
_VIEW_COUNT = [0]


def as_view(a):
    """the same data as a strided view of a larger buffer (guard cells of -777 around every axis but the leading component axis):
    the library hands such views to its own kernels, so they are admissible operands of every kernel"""
    a = np.asarray(a)
    if a.dtype == object:
        return a
    lead = 1 if a.ndim >= 3 and a.shape[0] in (2, 3) and a.ndim in (3, 4) and a.shape[0] != a.shape[-1] else 0
    pad = [(0, 0)] * lead + [(1, 2)] * (a.ndim - lead)
    buf = np.full([n + lo + hi for n, (lo, hi) in zip(a.shape, pad)], -777, dtype=a.dtype)
    idx = tuple(slice(lo, lo + n) for n, (lo, hi) in zip(a.shape, pad))
    view = buf[idx]
    view[...] = a
    return view


def operand(a, dtype=None):
    """operand for a kernel replay: every third one is a strided view (see as_view), the others fresh contiguous arrays"""
    a = np.array(a, dtype=dtype) if dtype is not None else np.array(a)
    _VIEW_COUNT[0] += 1
    return as_view(a) if _VIEW_COUNT[0] % 3 == 0 else a


class Arena:
    """Allocates arrays either contiguously or as strided views of larger guard buffers."""

    def __init__(self, mode="contig", rng=None):
        self.mode = mode
        self.bufs = []  # (buffer, view-mask, snapshot)
        self.rng = rng or np.random.default_rng(0)

    def make(self, data, dtype):
        data = np.asarray(data)
        if self.mode == "contig" or dtype is object:
            if dtype is object:
                return shim.frac_array(data)
            return np.array(data, dtype=dtype)
        # strided: embed in a buffer padded by 1..2 guard cells per spatial axis, plus a
        # stride-2 view along the last axis for "step" mode
        nd = data.ndim
        lead = 1 if False else 0
        pad = [(1, 2)] * nd
        if self.mode == "step":
            shape = [n + a + b for n, (a, b) in zip(data.shape, pad)]
            shape[-1] = 2 * data.shape[-1] + 3
            buf = np.full(shape, -777.0, dtype=dtype)
            idx = tuple(slice(a, a + n) for n, (a, b) in zip(data.shape[:-1], pad[:-1])) + (
                slice(1, 1 + 2 * data.shape[-1], 2),
            )
        else:
            shape = [n + a + b for n, (a, b) in zip(data.shape, pad)]
            buf = np.full(shape, -777.0, dtype=dtype)
            idx = tuple(slice(a, a + n) for n, (a, b) in zip(data.shape, pad))
        view = buf[idx]
        view[...] = data
        mask = np.ones(buf.shape, dtype=bool)
        mask[idx] = False
        self.bufs.append((buf, mask, buf[mask].copy()))
        return view

    def guards_intact(self):
        return all(np.array_equal(b[m], snap) for b, m, snap in self.bufs)


def to_float(a):
    if a.dtype == object:
        return np.array([float(x) for x in a.reshape(-1)]).reshape(a.shape)
    return a


def compare(name, code, spec, scale, exact_expected, real_t, mag=None):
    """-> None if equal, else description.  spec: integer array (scaled)."""
    spec = np.asarray(spec)
    if code.dtype == object:
        bad = []
        sp = spec.reshape(-1)
        for idx, x in enumerate(code.reshape(-1)):
            if x * scale != int(sp[idx]):
                bad.append((np.unravel_index(idx, spec.shape), str(x * scale), int(sp[idx])))
                if len(bad) > 3:
                    break
        if bad:
            return f"{name}: exact mismatch at {bad}"
        return None
    c = code.astype(np.float64) * scale
    if not np.all(np.isfinite(c)):
        return f"{name}: non-finite values"
    if exact_expected:
        if not np.array_equal(c, spec.astype(np.float64)):
            w = np.argwhere(c != spec)
            i = tuple(w[0])
            return f"{name}: {len(w)} cells differ (bit-exact expected), first {i}: code={c[i]} spec={spec[i]}"
        return None
    eps = float(np.finfo(real_t).eps)
    # rounding allowance from operand magnitudes (results may cancel)
    tol = 64 * eps * max(1.0, float(np.abs(spec).max()), float(mag or 0.0))
    d = np.abs(c - spec)
    if d.max() > tol:
        i = np.unravel_index(np.argmax(d), d.shape)
        return f"{name}: max |code*{scale} - spec| = {d.max():.3g} > tol {tol:.3g} at {i}: code={c[i]} spec={spec[i]}"
    return None


def replay_emit(e, real_t=np.float64, backend="compile", arena_mode="contig", num_threads=False, repeat=True):
    """Load the pre-state of one emitted Apply transition into real arrays, run the real
    kernel, compare every array with the post-state.  Returns list of mismatch texts."""
    shim.set_backend(backend)
    op, ps, shape = e["op"], e["ps"], tuple(e["shape"])
    D = len(shape)
    dtype = object if backend == "exact" else real_t
    arena = Arena(arena_mode)
    s = [arena.make(a, dtype) for a in e["pre"]["s"]]
    v = [arena.make(a, dtype) for a in e["pre"]["v"]]
    pvals = [Fraction(x) for x in ps] if backend == "exact" else [real_t(x) for x in ps]
    if op["name"] == "cplx" and backend == "exact":
        return ["skip"]
    # strided replays also hand the grid shape to the generators (`fixed_grid_size`), as the simulators do
    FIXED_GRID[0] = shape if arena_mode != "contig" else None
    try:
        apply_op(op, s, v, pvals, real_t if backend != "exact" else np.float64, D, num_threads=num_threads)
    finally:
        FIXED_GRID[0] = None
    errs = _compare_post(e, s, v, ps, op, backend, real_t, D)
    if repeat and not errs:
        # the same call again on the SAME arrays (pre-state written back in place): no per-buffer memory between calls
        for a, pre in zip(s + v, e["pre"]["s"] + e["pre"]["v"]):
            a[...] = shim.frac_array(np.asarray(pre)) if backend == "exact" else np.asarray(pre)
        apply_op(op, s, v, pvals, real_t if backend != "exact" else np.float64, D, num_threads=num_threads)
        errs = ["second call on the same arrays: " + x for x in _compare_post(e, s, v, ps, op, backend, real_t, D)]
    if not arena.guards_intact():
        errs.append("guard cells around a strided view were modified")
    return errs


def _compare_post(e, s, v, ps, op, backend, real_t, D):
    errs = []
    sc = scale_of(op)
    scaled = SCALED.get(op["name"], set())
    unspec = UNSPECIFIED.get(op["name"], set())
    exact_expected = op["name"] not in INEXACT
    M = max(float(np.abs(np.array(a, dtype=float)).max()) for a in e["pre"]["s"] + e["pre"]["v"])
    P = max(abs(float(x)) for x in ps)
    mag = sc * (M + 8 * D * P * M * M * (1 + P * M) ** 2)
    for kind, arrs, post in (("s", s, e["post"]["s"]), ("v", v, e["post"]["v"])):
        for j, (a, pz) in enumerate(zip(arrs, post)):
            if (kind, j) in unspec:
                continue
            is_scaled = (kind, j) in scaled
            r = compare(f"{kind}[{j + 1}]", a, np.array(pz), sc if is_scaled else 1, exact_expected or not is_scaled, real_t, mag)
            if r:
                errs.append(r)
    return errs
