"""C09 -- marker kinematics are the rigid-section kinematics of the body.

TLC: spec/Bodies.tla (marker positions / velocities over exact rationals; rigid kinematics law;
surface markers at radius*ratio).  Binding: every case is loaded into real PyElastica bodies and
real forcing grids; `compute_lag_grid_position_field` / `..._velocity_field` are compared with the
model, the rigid-section law is evaluated on every marker of each grid's natural layout, and
body-fixed grids are advanced along (V, Omega) to check that markers move with their velocity to
second order (the sphere's markers translate only)."""
from __future__ import annotations

import numpy as np

from . import bodies, core, shim, tlc

TOL = 2e-12


def rodrigues(w, h):
    th = np.linalg.norm(w) * h
    if th == 0:
        return np.eye(3)
    k = w / np.linalg.norm(w)
    K = np.array([[0, -k[2], k[1]], [k[2], 0, -k[0]], [-k[1], k[0], 0]])
    return np.eye(3) + np.sin(th) * K + (1 - np.cos(th)) * K @ K


def rigid_case(chk, e):
    kind = e["cs"]["kind"]
    variants = ["cyl2d"] if kind == "rigid2" else ["cylinder", "sphere", "plane"]
    for k3 in variants:
        body, grid, D = bodies.make_rigid(k3, e)
        body_fp = (body.position_collection.tobytes(), body.director_collection.tobytes(), body.velocity_collection.tobytes(), body.omega_collection.tobytes())
        grid.compute_lag_grid_position_field()
        grid.compute_lag_grid_velocity_field()
        errs = []
        for m in range(3):
            wp, wv = bodies.vec(e["pos"][m])[:D], bodies.vec(e["vel"][m])[:D]
            if np.abs(grid.position_field[:, m] - wp).max() > TOL:
                errs.append(f"marker {m} position {grid.position_field[:, m]} but the specification gives {wp}")
            if np.abs(grid.velocity_field[:, m] - wv).max() > TOL:
                errs.append(f"marker {m} velocity {grid.velocity_field[:, m]} but the specification gives {wv}")
        # rigid kinematics on every marker of the natural layout
        Q = body.director_collection[:, :, 0].copy()
        X, V = body.position_collection[:, 0].copy(), body.velocity_collection[:, 0].copy()
        w_lab = Q.T @ body.omega_collection[:, 0]
        N = grid.num_lag_nodes
        x3 = np.zeros((3, N))
        x3[:D] = grid.position_field
        if D == 2:
            x3[2] = X[2]
        want = V[:, None] + np.cross(w_lab, (x3 - X[:, None]).T).T
        if np.abs(grid.velocity_field - want[:D]).max() > TOL * 10:
            errs.append("marker velocity != V + Omega_lab x (x_marker - X) on the grid's own layout")
        # body-fixed markers move with their velocity to second order
        x0 = grid.position_field.copy()
        v0 = grid.velocity_field.copy()
        defects = []
        for h in (2.0**-6, 2.0**-7):
            R = rodrigues(w_lab, h)
            body.position_collection[:, 0] = X + h * V
            body.director_collection[:, :, 0] = Q @ R.T
            grid.compute_lag_grid_position_field()
            if k3 == "sphere":
                d = np.abs(grid.position_field - x0 - h * V[:D, None]).max()
                if d > TOL:
                    errs.append(f"sphere markers do not translate with the centre (defect {d:.3g})")
            else:
                defects.append(np.abs(grid.position_field - x0 - h * v0).max())
            body.position_collection[:, 0] = X
            body.director_collection[:, :, 0] = Q
        if defects and np.linalg.norm(w_lab) > 0:
            wn = np.linalg.norm(w_lab)
            arm = np.abs(x3 - X[:, None]).max()
            if defects[0] > 2 * (wn * 2.0**-6) ** 2 * arm + TOL or (defects[0] > 1e-9 and defects[0] / max(defects[1], 1e-300) < 3.5):
                errs.append(f"markers do not follow their velocity to second order: defects {defects} for h = 1/64, 1/128")
        grid.compute_lag_grid_position_field()
        now = (body.position_collection.tobytes(), body.director_collection.tobytes(), body.velocity_collection.tobytes(), body.omega_collection.tobytes())
        if now != body_fp:
            errs.append("forcing grid modified the body state")
        chk.traces += 1
        chk.count((kind, k3, tlc.canon(e["cs"])))
        for er in errs[:2]:
            chk.violation({"kind": "kinematics", "grid": k3}, f"{type(grid).__name__} (case {e['cs']}): {er}", {"case": e["cs"], "error": er})


def rod_case(chk, e, dim2=False):
    kind = e["cs"]["kind"]
    if not dim2 and kind in ("rod_elem", "rod_nodal"):
        rod_case(chk, e, dim2=True)             # the 2-D variants of these grids
    rod = bodies.make_rod(e)
    grid, D = bodies.make_rod_grid(kind, rod, e, dim2)
    grid.compute_lag_grid_position_field()
    grid.compute_lag_grid_velocity_field()
    errs = []
    if kind == "rod_nodal":
        if not np.array_equal(grid.position_field, rod.position_collection[:D]) or not np.array_equal(grid.velocity_field, rod.velocity_collection[:D]):
            errs.append("nodal grid does not coincide with node positions / velocities")
    else:
        wp = np.array([bodies.vec(p)[:D] for p in e["pos"]]).T
        wv = np.array([bodies.vec(v)[:D] for v in e["vel"]]).T
        if grid.position_field.shape != wp.shape:
            errs.append(f"marker count {grid.position_field.shape[1]} != specification {wp.shape[1]}")
        else:
            if np.abs(grid.position_field - wp).max() > TOL:
                m = int(np.argmax(np.abs(grid.position_field - wp).max(axis=0)))
                errs.append(f"marker {m} position {grid.position_field[:, m]} but the specification gives {wp[:, m]}")
            if np.abs(grid.velocity_field - wv).max() > TOL:
                m = int(np.argmax(np.abs(grid.velocity_field - wv).max(axis=0)))
                errs.append(f"marker {m} velocity {grid.velocity_field[:, m]} but the specification gives {wv[:, m]}")
        if kind == "rod_surf":
            centre = 0.5 * (rod.position_collection[:, 1:] + rod.position_collection[:, :-1])
            for i in range(3):
                seg = slice(grid.start_idx[i], grid.end_idx[i])
                dist = np.linalg.norm(grid.position_field[:, seg] - centre[:, i : i + 1], axis=0)
                ratio = grid.grid_point_radius_ratio[seg]
                npts = grid.end_idx[i] - grid.start_idx[i]
                want = rod.radius[i] * ratio if npts > 1 else np.zeros(npts)
                if np.abs(dist - want).max() > TOL:
                    errs.append(f"element {i}: marker distances from the centre {dist} != radius * ratio {want}")
    chk.traces += 1
    chk.count((kind, tlc.canon(e["cs"])))
    for er in errs[:2]:
        chk.violation({"kind": "kinematics", "grid": kind}, f"{type(grid).__name__} (case {e['cs']}): {er}", {"case": e["cs"], "error": er})


def natural_rods(chk, rng, quick):
    """rods with many elements, taper, dense surface grids: every marker moves rigidly with its element's section."""
    import elastica as ea
    import sopht.simulator as sps
    from elastica.interaction import _node_to_element_velocity

    for trial in range(4 if quick else 24):
        n = int(rng.integers(2, 9))
        d = rng.normal(size=3)
        d /= np.linalg.norm(d)
        nrm = np.cross(d, rng.normal(size=3))
        nrm /= np.linalg.norm(nrm)
        rod = ea.CosseratRod.straight_rod(n, rng.normal(size=3), d, nrm, 1.0 + rng.random(), 0.05, density=1e3, youngs_modulus=1e6, shear_modulus=1e6 / 1.5)
        rod.radius[...] = 0.02 + 0.1 * rng.random(n) * np.linspace(1.0, 0.2, n)
        rod.velocity_collection[...] = rng.normal(size=(3, n + 1))
        rod.omega_collection[...] = rng.normal(size=(3, n))
        dens = int(rng.choice([4, 6, 9, 12]))
        cap = bool(trial % 2)
        grid = sps.CosseratRodSurfaceForcingGrid(grid_dim=3, cosserat_rod=rod, surface_grid_density_for_largest_element=dens, with_cap=cap)
        # the rod deforms AFTER the grid was built: stretched (radii shrink by volume conservation), moved, re-oriented
        stretch = 1.0 + 0.4 * rng.random()
        rod.radius[...] = rod.radius / np.sqrt(stretch)
        rod.position_collection[...] = rod.position_collection * stretch + rng.normal(size=(3, 1))
        rod.velocity_collection[...] = rng.normal(size=(3, n + 1))
        rod.omega_collection[...] = rng.normal(size=(3, n))
        rod.director_collection[...] = rod.director_collection[[2, 0, 1]]
        grid.compute_lag_grid_position_field()
        grid.compute_lag_grid_velocity_field()
        centre = 0.5 * (rod.position_collection[:, 1:] + rod.position_collection[:, :-1])
        ve = _node_to_element_velocity(rod.mass, rod.velocity_collection)
        errs = []
        if grid.end_idx[-1] != grid.num_lag_nodes or np.any(grid.end_idx - grid.start_idx <= 0):
            errs.append("marker bookkeeping (start/end indices) inconsistent")
        for i in range(n):
            seg = slice(grid.start_idx[i], grid.end_idx[i])
            arm = grid.position_field[:, seg] - centre[:, i : i + 1]
            w_lab = rod.director_collection[:, :, i].T @ rod.omega_collection[:, i]
            want_v = ve[:, i : i + 1] + np.cross(w_lab, arm.T).T
            if np.abs(grid.velocity_field[:, seg] - want_v).max() > 1e-12:
                errs.append(f"element {i}: marker velocity != element velocity + Omega_lab x offset")
            dist = np.linalg.norm(arm, axis=0)
            npts = grid.end_idx[i] - grid.start_idx[i]
            ratio = grid.grid_point_radius_ratio[seg]
            want = rod.radius[i] * ratio if npts > 1 else np.zeros(npts)
            if np.abs(dist - want).max() > 1e-12:
                errs.append(f"element {i}: marker radius {dist} != local radius * cap ratio {want}")
            # offsets lie in the cross-section plane (orthogonal to d3)
            if np.abs(rod.director_collection[2, :, i] @ arm).max() > 1e-12:
                errs.append(f"element {i}: surface markers are not in the cross-section plane")
        chk.traces += 1
        chk.count(("natural_rod", trial))
        for er in errs[:2]:
            chk.violation({"kind": "kinematics", "grid": "rod_surf_natural"}, f"surface grid n={n} density={dens} cap={cap}: {er}")


def run(chk: core.Check):
    shim.install()
    quick = chk.tier == "quick"
    rng = np.random.default_rng(chk.seed)
    bodies.model_check(chk, quick)
    cases = bodies.emit_cases(chk, bodies.ALL_KINDS, quick, "Bodies emit")
    # kinematics do not depend on which marker carries the unit force: one case per configuration
    seen = set()
    for e in cases:
        cfg = dict(e["cs"], fm=0, fc=0)
        key = tlc.canon(cfg)
        if key in seen:
            continue
        seen.add(key)
        try:
            if e["cs"]["kind"] in ("rigid3", "rigid2"):
                rigid_case(chk, e)
            else:
                rod_case(chk, e)
        except core.MachineryError:
            raise
        except Exception as ex:
            chk.traces += 1
            chk.violation({"kind": "kinematics_exception", "grid": e["cs"]["kind"]}, f"case {e['cs']}: {type(ex).__name__}: {ex}")
        if len(chk.samples) < 3 and e["cs"]["q"] == [1, 2, 3, 4]:
            chk.sample({"cs": e["cs"], "pos": e.get("pos", [])[:2], "vel": e.get("vel", [])[:2]})
    natural_rods(chk, rng, quick)
    chk.assumptions += [
        "rational poses (integer quaternions), velocities and angular velocities; the first three markers of rigid grids carry the model's "
        "rational arms, all markers of the natural layout are checked against V + Omega x r evaluated by the harness",
        "second-order motion consistency: pose advanced with the exact rotation for h = 1/64 and 1/128, defect must be O(h^2) and shrink "
        ">= 3.5x; the element velocity of a rod is PyElastica's mass-weighted node average",
        "comparison at 2e-12",
    ]
    return "case = (grid type, pose, angular velocity) from TLC, natural layouts of rigid bodies, and random tapered rods with dense surface grids"
