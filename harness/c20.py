"""C20 -- time-stepping kernels realise their nominal scheme.

TLC: spec/MC_TimeSteppers.tla (SSP-RK3 stage machine == third-order polynomial in the Euler flux
operator, on all unit impulses x generic frozen velocities; the half-third-stage variant is
refuted).  Binding: the time-step operations of the kernel zoo are replayed into the real
generators (exact-rational: equality), and the polynomial the real SSP-RK3 kernel realises is
IDENTIFIED from its responses (coefficients of A^0..A^3 must be 1, 1, 1/2, 1/6)."""
from __future__ import annotations

from fractions import Fraction

import numpy as np

from . import core, kernels, shim, tlc
from .c13 import CFG as KCFG

STEP_OPS = {"adv_step", "adv_step_vec", "diff_step", "diff_step_vec", "stretch_euler", "stretch_ssprk3"}
UPS = "{<<1, 2, 3, 1>>, <<2, 1, 1, 3>>, <<3, 3, 2, 2>>, <<1, 4, 2, 0>>}"
UPS_Q = "{<<1, 2, 3, 1>>, <<3, 3, 2, 2>>}"


def identify_polynomial(chk, shape, seed):
    """responses of the real SSP-RK3 kernel for step prefactors p = 1..4 on one state determine the
    coefficients c_j of sum_j c_j p^j A1^j omega (A1 = the library's own flux with prefactor 1)."""
    shim.set_backend("exact")
    rng = np.random.default_rng(seed)
    om0 = rng.integers(-2, 3, (3,) + shape)
    u0 = rng.integers(-2, 3, (3,) + shape)
    fa = shim.frac_array
    flux = kernels.gen("gen_vorticity_stretching_flux_pyst_kernel_3d", np.float64)
    powers = [fa(om0)]
    for j in range(3):
        out = fa(np.zeros((3,) + shape))
        flux(vorticity_stretching_flux_field=out, vorticity_field=powers[-1], velocity_field=fa(u0), prefactor=Fraction(1))
        powers.append(out)
    # pick the cell with the largest |A^3 om| as probe
    a3 = np.array([abs(x) for x in powers[3].reshape(-1)])
    if a3.max() == 0:
        raise core.MachineryError("identification state has A^3 omega = 0")
    probe = int(np.argmax(a3))
    rows, rhs = [], []
    for p in (1, 2, 3, 4):
        om = fa(om0)
        mid = fa(np.zeros((3,) + shape))
        fl = fa(np.zeros((3,) + shape))
        k = kernels.gen("gen_vorticity_stretching_timestep_ssprk3_pyst_kernel_3d", np.float64, midstep_buffer_vector_field=mid, _nocache=True)
        k(vorticity_field=om, velocity_field=fa(u0), vorticity_stretching_flux_field=fl, dt_by_2_dx=Fraction(p))
        # least squares over all cells would do; four cells x four p give an exact linear system per coefficient set
        rows.append([Fraction(p) ** j for j in range(4)])
        rhs.append(om)
    # solve for d_j = c_j * A1^j om (arrays) from the Vandermonde system, then read c_j at cells where A1^j om != 0
    import sympy as sp

    Vinv = sp.Matrix([[sp.Rational(x.numerator, x.denominator) for x in r] for r in rows]).inv()
    coeffs = []
    for j in range(4):
        dj = sum(Fraction(int(Vinv[j, i].p), int(Vinv[j, i].q)) * rhs[i] for i in range(4))
        base = powers[j].reshape(-1)
        d = dj.reshape(-1)
        cj = None
        for idx in range(base.size):
            if base[idx] != 0:
                c = d[idx] / base[idx]
                if cj is None:
                    cj = c
                elif c != cj:
                    return None, f"response is not of the form c_{j} A^{j} omega (cell-dependent coefficient)"
        coeffs.append(cj)
    return coeffs, None


def run(chk: core.Check):
    shim.install()
    quick = chk.tier == "quick"
    shape = [4, 4, 5]
    res = tlc.run_wrapped("MC_TimeSteppers", {"Shape": shape, "ThirdStageHalf": False},
                          "SPECIFICATION Spec\nINVARIANT SspIsPoly\nINVARIANT EulerLinearInStep\nCHECK_DEADLOCK FALSE\n",
                          raw={"UPatterns": UPS_Q if quick else UPS}, timeout=1500)
    chk.add_tlc("MC_TimeSteppers nominal", res)
    res = tlc.run_wrapped("MC_TimeSteppers", {"Shape": shape, "ThirdStageHalf": True}, "SPECIFICATION Spec\nINVARIANT SspIsPoly\nCHECK_DEADLOCK FALSE\n",
                          raw={"UPatterns": UPS_Q}, timeout=600)
    chk.add_tlc("control third stage half step", res, expect_violation="SspIsPoly")
    res = tlc.run_wrapped("MC_TimeSteppers", {"Shape": shape, "ThirdStageHalf": False}, "SPECIFICATION Spec\nINVARIANT CubicVanishes\nCHECK_DEADLOCK FALSE\n",
                          raw={"UPatterns": UPS_Q}, timeout=600)
    chk.add_tlc("control cubic term matters", res, expect_violation="CubicVanishes")
    # ---- replay of the time-step operations ---------------------------------------------------
    plans = [((5, 6), False, 3), ((5, 6), True, 2), ((5, 5, 6), False, 2), ((5, 5, 6), True, 2)]
    if not quick:
        plans += [((7, 5), False, 6), ((6, 5, 7), False, 4), ((5, 6, 5), True, 4)]
    variants = [(np.float64, "exact", "contig"), (np.float64, "compile", "contig"), (np.float64, "compile", "pad")] + (
        [] if quick else [(np.float32, "compile", "contig"), (np.float32, "compile", "step")])
    for pi, (shp, imp, num) in enumerate(plans):
        r = tlc.run_wrapped("MC_Kernels", {"Shape": list(shp), "Impulses": imp, "OnlyOps": set(STEP_OPS)}, KCFG,
                            raw={"Vals": "-3..3", "PVals": "{-2, -1, 1, 2, 3}"}, mode="simulate",
                            simulate={"num": num, "depth": 20}, seed=chk.seed + pi, timeout=600)
        chk.add_tlc(f"MC_Kernels steps {list(shp)}", r)
        for e in r.emits:
            for real_t, backend, arena in variants:
                try:
                    errs = kernels.replay_emit(e, real_t, backend, arena)
                except Exception as ex:
                    errs = [f"exception {type(ex).__name__}: {ex}"]
                chk.traces += 1
                chk.count((e["op"]["name"], tuple(shp), imp, repr(e["ps"]), backend, arena, real_t.__name__, len(chk.nontrivial)))
                if errs:
                    chk.violation({"op": e["op"]["name"], "dim": len(shp)},
                                  f"time-step kernel {e['op']['name']} shape={shp} {backend}/{real_t.__name__}/{arena}: " + "; ".join(errs[:3]),
                                  {"emit": e, "errors": errs})
            if len(chk.samples) < 3 and e["op"]["name"] in ("stretch_ssprk3", "adv_step"):
                chk.sample({"op": e["op"], "ps": e["ps"], "shape": e["shape"]})
    # ---- identification of the realised polynomial ---------------------------------------------
    for t in range(2 if quick else 6):
        coeffs, err = identify_polynomial(chk, (4, 5, 4), chk.seed + t)
        chk.traces += 1
        chk.count(("identify", t))
        want = [Fraction(1), Fraction(1), Fraction(1, 2), Fraction(1, 6)]
        if err or coeffs != want:
            chk.violation({"op": "stretch_ssprk3", "kind": "polynomial"},
                          f"SSP-RK3 kernel realises coefficients {[str(c) for c in coeffs] if coeffs else err} of (I, A, A^2, A^3); nominal is 1, 1, 1/2, 1/6")
        chk.extra["identified_ssprk3_coefficients"] = [str(c) for c in coeffs] if coeffs else err
    chk.assumptions += [
        "for a frozen velocity the stretching flux is linear in vorticity: unit impulses cover all vorticity fields; velocities are "
        "generic integer fields (the identity is polynomial in the velocity samples)",
        "Euler kernels are compared with field + step * flux(field) as defined in Stencils.tla (bit-exact / rationally exact)",
        "compat shim, exact-rational interpreter and TLC are trusted",
    ]
    return "case = one time-step kernel call on a TLC-generated state per backend/precision, plus polynomial identification runs"
