"""C16 -- the recommended time step is stable; explicit diffusion is monotone.

(a) spec/StableDt.tla over exact rationals: positivity, linearity in the prefactor, advective
    and diffusive bounds for the intended design; the "guard added to the limit" variant is
    refuted.  Every abstract instance is mapped EXACTLY (powers of two) onto a concrete
    single/double precision instance and replayed into the real helper and simulators; the
    property's inequalities are also evaluated directly on the returned values for natural
    instances (fine grids, both precisions, all velocity regimes).
(b) spec/MC_MaxPrinciple.tla exhaustively over all stencil values; replayed into the real
    diffusion time-step kernels."""
from __future__ import annotations

import itertools
from fractions import Fraction

import numpy as np

from . import core, kernels, shim, tlc

RAW = {
    "Hs": "{<<1,2>>, <<1,8>>, <<1,64>>}", "Nus": "{<<1,1>>, <<1,8>>, <<4,1>>}", "Cfls": "{<<1,10>>, <<1,2>>}",
    "Ms": "{<<0,1>>, <<1,2>>, <<6,1>>}", "Prefacs": "{<<1,1>>, <<1,2>>, <<1,8>>}", "Dims": "{2,3}", "Tol": "<<10, 8192>>",
}
INV = "SPECIFICATION Spec\nINVARIANT Positive\nINVARIANT LinearInPrefac\nINVARIANT AdvBound\nINVARIANT DiffBound\n"
_SIMS: dict = {}


def fr(x):
    return Fraction(x[0], x[1])


def helper():
    from sopht.simulator.flow.passive_transport_flow_simulators import compute_advection_diffusion_stable_timestep as f

    return f


def velocity_with_max(D, shape, m, real_t, rng):
    """a velocity field whose max_c sum_k |u_k| is exactly m (dyadic split), smaller elsewhere."""
    v = np.zeros((D,) + shape, dtype=real_t)
    if m > 0:
        v[...] = (rng.integers(-4, 5, v.shape) / 64.0 * m / D).astype(real_t)
        c = tuple(rng.integers(0, n) for n in shape)
        v[(0,) + c] = real_t(m / 2)
        v[(1,) + c] = real_t(-m / 2)
        for k in range(2, D):
            v[(k,) + c] = 0
    return v


def replay_abstract(e, real_t, via, rng):
    """abstract instance -> concrete instance (exact power-of-two scaling), run, compare."""
    cs = e["cs"]
    D = cs["d"]
    sig_exp = -10 if real_t == np.float32 else -39  # eps / 2^-13
    sig = Fraction(2) ** sig_exp
    h = fr(cs["h"]) * sig * sig
    nu = fr(cs["nu"]) * sig**3
    m = fr(cs["m"]) * sig
    cfl, pf = fr(cs["cfl"]), fr(cs["pf"])
    want = float(fr(e["dt"]) * sig)
    shape = (4, 6) if D == 2 else (4, 4, 6)
    vel = velocity_with_max(D, shape, float(m), real_t, rng)
    if via == "helper":
        buf = np.zeros(shape, dtype=real_t)
        got = helper()(velocity_field=vel, velocity_magnitude_field=buf, grid_dim=D, dx=real_t(float(h)), cfl=float(cfl),
                       kinematic_viscosity=float(nu), real_t=real_t) * float(pf)
    else:
        sim = get_sim(via, D, shape, real_t)
        sim.dx = real_t(float(h))
        sim.cfl = float(cfl)
        sim.kinematic_viscosity = float(nu)
        if hasattr(sim, "flow_density"):
            # the recommended step does not depend on the density: any admissible value must give the same dt
            sim.flow_density = float(rng.choice([0.25, 1.0, 3.0, 0.5]))
        sim.velocity_field[...] = vel
        got = sim.compute_stable_timestep(dt_prefac=float(pf))
    eps = float(np.finfo(real_t).eps)
    if not np.isfinite(got) or got <= 0:
        return f"dt = {got} is not finite and positive"
    if abs(got - want) > 16 * eps * want:
        return f"dt = {got!r} but the specification gives {want!r} (rel. diff {(got - want) / want:.3g})"
    return None


def get_sim(kind, D, shape, real_t):
    import sopht.simulator as sps

    key = (kind, D, shape, real_t)
    if key not in _SIMS:
        xr = float(shape[-1])
        if kind == "passive":
            _SIMS[key] = sps.PassiveTransportFlowSimulator(kinematic_viscosity=1.0, grid_dim=D, grid_size=shape, x_range=xr, real_t=real_t)
        elif D == 2:
            _SIMS[key] = sps.UnboundedNavierStokesFlowSimulator2D(grid_size=shape, x_range=xr, kinematic_viscosity=1.0, real_t=real_t,
                                                                  flow_density=0.25, with_forcing=True, with_free_stream_flow=True)
        else:
            _SIMS[key] = sps.UnboundedNavierStokesFlowSimulator3D(grid_size=shape, x_range=xr, kinematic_viscosity=1.0, real_t=real_t,
                                                                  flow_density=3.0, with_forcing=True, filter_vorticity=True,
                                                                  with_free_stream_flow=True)
        # the recommended step is a function of the CURRENT velocity only: the simulator has a history (a step with a free stream, a
        # changed velocity) before the first query
        sim = _SIMS[key]
        sim.velocity_field[...] = 0
        if kind == "passive":
            sim.time_step(dt=real_t(0.01))
        else:
            sim.time_step(dt=real_t(0.01), free_stream_velocity=np.array([0.5, -1.0, 0.25][:D]))
            sim.time_step(dt=real_t(0.01), free_stream_velocity=np.array([0.0, 2.0, -0.25][:D]))
    return _SIMS[key]


def natural_instances(chk, n, rng):
    """direct evaluation of the property on the returned value (no model in between)."""
    f = helper()
    for i in range(n):
        real_t = [np.float32, np.float64][i % 2]
        D = 2 + (i // 2) % 2
        nx = int(2 ** rng.integers(3, 11))
        xr = float(rng.choice([0.5, 1.0, 2.0, 3.0]))
        h = real_t(xr / nx)
        nu = float(10 ** rng.uniform(-5, 1.5))
        cfl = float(rng.choice([0.05, 0.1, 0.5, 1.0]))
        shape = (4, 5) if D == 2 else (3, 4, 5)
        regime = i % 4
        vel = np.zeros((D,) + shape, dtype=real_t)
        if regime == 1:
            vel[...] = real_t(10 ** rng.uniform(-3, 2))
        elif regime == 2:
            vel[(0,) + tuple(rng.integers(0, s) for s in shape)] = real_t(-(10 ** rng.uniform(-6, 3)))
        elif regime == 3:
            vel[...] = rng.normal(size=vel.shape).astype(real_t)
        buf = np.zeros(shape, dtype=real_t)
        dt1 = f(velocity_field=vel, velocity_magnitude_field=buf, grid_dim=D, dx=h, cfl=cfl, kinematic_viscosity=nu, real_t=real_t)
        m = float(np.abs(vel.astype(np.float64)).sum(axis=0).max())
        eps = float(np.finfo(real_t).eps)
        errs = []
        if not np.isfinite(dt1) or dt1 <= 0:
            errs.append(f"dt = {dt1}")
        else:
            if dt1 * m / float(h) > cfl * (1 + 8 * eps):
                errs.append(f"advective bound: dt*max|u|/h = {dt1 * m / float(h)} > cfl = {cfl}")
            lim = 0.9 / (2 * D)
            if nu * dt1 / float(h) ** 2 > lim * (1 + 8 * eps):
                errs.append(f"diffusive bound: nu*dt/h^2 = {nu * dt1 / float(h) ** 2} > {lim}")
        chk.traces += 1
        chk.count(("natural", real_t.__name__, D, nx, regime, round(np.log10(nu), 1)))
        for er in errs:
            chk.violation({"kind": "stable_dt", "precision": real_t.__name__},
                          f"compute_advection_diffusion_stable_timestep({real_t.__name__}, D={D}, dx={float(h)}, nu={nu}, cfl={cfl}, velocity regime {regime}): {er}",
                          {"dx": float(h), "nu": nu, "cfl": cfl, "D": D, "regime": regime})


def constructor_plumbing(chk, rng, quick):
    """the simulators' own constructor arguments (cfl, viscosity, x_range / grid) reach the time-step selection: direct evaluation of
    the bounds on freshly built simulators that nobody touched after construction (except for the velocity)."""
    import sopht.simulator as sps

    plans = [("passive", 2, (6, 8), np.float32, 0.37, 0.013, 2.0), ("ns", 2, (6, 8), np.float64, 0.05, 2.5, 0.5)]
    if not quick:
        plans += [("ns", 3, (5, 6, 8), np.float32, 0.8, 0.4, 4.0), ("passive", 3, (5, 6, 8), np.float64, 0.2, 1e-4, 1.0)]
    for kind, D, shape, real_t, cfl, nu, xr in plans:
        if kind == "passive":
            sim = sps.PassiveTransportFlowSimulator(kinematic_viscosity=nu, grid_dim=D, grid_size=shape, x_range=xr, cfl=cfl, real_t=real_t)
        elif D == 2:
            sim = sps.UnboundedNavierStokesFlowSimulator2D(grid_size=shape, x_range=xr, kinematic_viscosity=nu, cfl=cfl, real_t=real_t, flow_density=2.0)
        else:
            sim = sps.UnboundedNavierStokesFlowSimulator3D(grid_size=shape, x_range=xr, kinematic_viscosity=nu, cfl=cfl, real_t=real_t, flow_density=0.5)
        h = xr / shape[-1]
        eps = float(np.finfo(real_t).eps)
        for scale in (0.0, 1e-3, 1.0, 50.0):
            sim.velocity_field[...] = (rng.normal(size=sim.velocity_field.shape) * scale).astype(real_t)
            m = float(np.abs(sim.velocity_field.astype(np.float64)).sum(axis=0).max())
            for pf in (1.0, 0.25):
                dt = float(sim.compute_stable_timestep(dt_prefac=pf))
                chk.traces += 1
                chk.count(("plumbing", kind, D, real_t.__name__, scale, pf))
                errs = []
                if not np.isfinite(dt) or dt <= 0:
                    errs.append(f"dt = {dt}")
                else:
                    adv = pf * cfl * h / m if m > 0 else np.inf
                    dif = pf * 0.9 * h * h / (2 * D * nu)
                    want = min(adv, dif)
                    if dt > want * (1 + 64 * eps):
                        errs.append(f"dt = {dt!r} exceeds min(cfl h / max|u|, 0.9 h^2 / (2 D nu)) x prefactor = {want!r} for the constructor's cfl={cfl}, nu={nu}, h={h}")
                    elif dt < want * (1 - 1e-3):
                        errs.append(f"dt = {dt!r} is more than 0.1% below the documented selection {want!r} (cfl={cfl}, nu={nu}, h={h})")
                for er in errs:
                    chk.violation({"kind": "stable_dt_plumbing", "via": kind, "dim": D}, f"{type(sim).__name__} ({real_t.__name__}) velocity scale {scale}, prefactor {pf}: {er}")


def simulator_max_principle(chk, rng, quick):
    """the recommended step fed back into the simulators' own time step (fluid at rest = diffusion-limited): the step is the convex
    averaging r = nu dt / h^2 of the documented five/seven-point stencil on EVERY grid shape (tall, wide, non-cubic)."""
    import sopht.simulator as sps

    plans = [("ns", (14, 7), np.float64), ("ns", (7, 13), np.float32), ("passive", (12, 7), np.float64)]
    if not quick:
        plans += [("ns", (7, 12, 8), np.float64), ("passive", (6, 11, 7), np.float32), ("passive", (7, 12), np.float32)]
    for kind, shape, real_t in plans:
        D = len(shape)
        xr, nu = 0.75, 0.03
        if kind == "passive":
            sim = sps.PassiveTransportFlowSimulator(kinematic_viscosity=nu, grid_dim=D, grid_size=shape, x_range=xr, real_t=real_t)
            prim = sim.primary_field
        elif D == 2:
            sim = sps.UnboundedNavierStokesFlowSimulator2D(grid_size=shape, x_range=xr, kinematic_viscosity=nu, real_t=real_t, penalty_zone_width=0)
            prim = sim.vorticity_field
        else:
            sim = sps.UnboundedNavierStokesFlowSimulator3D(grid_size=shape, x_range=xr, kinematic_viscosity=nu, real_t=real_t, penalty_zone_width=0)
            prim = sim.vorticity_field
        h = xr / shape[-1]
        sim.velocity_field[...] = 0
        f0 = np.zeros(prim.shape)
        inner = tuple(slice(2, -2) for _ in range(D))
        f0[(Ellipsis,) + inner] = rng.random(f0[(Ellipsis,) + inner].shape)
        prim[...] = f0
        f0 = prim.astype(np.float64).copy()
        dt = float(sim.compute_stable_timestep())
        sim.time_step(dt=dt)
        got = prim.astype(np.float64)
        r = nu * dt / h**2
        eps = float(np.finfo(real_t).eps)
        chk.traces += 1
        chk.count(("sim max principle", kind, shape, real_t.__name__))
        errs = []
        if r > 0.9 / (2 * D) * (1 + 16 * eps):
            errs.append(f"nu dt / h^2 = {r} exceeds 0.9 / (2 D)")
        if got.min() < f0.min() - 16 * eps or got.max() > f0.max() + 16 * eps:
            errs.append(f"one step at the recommended dt maps values in [{f0.min():.3g}, {f0.max():.3g}] to [{got.min():.6g}, {got.max():.6g}]: new extrema")
        # documented explicit diffusion step on the interior, ring unchanged
        ref = f0.copy()
        lead = f0.ndim - D
        c = (slice(None),) * lead + tuple(slice(1, -1) for _ in range(D))
        lap = -2 * D * f0[c]
        for a in range(D):
            hi = [slice(1, -1)] * D
            lo = [slice(1, -1)] * D
            hi[a] = slice(2, None)
            lo[a] = slice(0, -2)
            lap = lap + f0[(slice(None),) * lead + tuple(hi)] + f0[(slice(None),) * lead + tuple(lo)]
        ref[c] = f0[c] + r * lap
        deep = (slice(None),) * lead + tuple(slice(1, -1) for _ in range(D))
        if np.abs(got[deep] - ref[deep]).max() > 64 * eps:
            errs.append(f"one step of the fluid at rest differs from f + (nu dt / h^2) Laplacian_h f by {np.abs(got[deep] - ref[deep]).max():.3g} (r = {r:.4g})")
        for er in errs[:2]:
            chk.violation({"kind": "sim_max_principle", "via": kind, "dim": D}, f"{type(sim).__name__} {shape} {real_t.__name__}: {er}")


def max_principle(chk, quick):
    plans = [((3, 3), 1, 4, "-2..2"), ((3, 3), 1, 8, "-2..2"), ((3, 3, 3), 1, 8, "-1..1" if quick else "-2..2"),
             ((3, 3, 3), 1, 6, "-1..1" if quick else "-2..2")]
    for shape, rn, rd, vals in plans:
        res = tlc.run_wrapped("MC_MaxPrinciple", {"Shape": list(shape), "RNum": rn, "RDen": rd},
                              "SPECIFICATION Spec\nINVARIANT MaxPrinciple\nINVARIANT RingUnchanged\nINVARIANT SameAsDiffStep\nCONSTRAINT EmitState\n",
                              raw={"Vals": vals}, workers=1, timeout=1500)
        chk.add_tlc(f"MC_MaxPrinciple{list(shape)} r={rn}/{rd}", res)
        D = len(shape)
        cases = tlc.dedupe(res.emits, lambda e: e["f"])
        for real_t in (np.float64, np.float32):
            shim.set_backend("compile")
            k = kernels.gen(f"gen_diffusion_timestep_euler_forward_pyst_kernel_{D}d", real_t)
            r = real_t(rn) / real_t(rd)
            dyadic = rd & (rd - 1) == 0
            for e in cases:
                f0 = np.array(e["f"], dtype=real_t)
                f = f0.copy()
                buf = np.full(shape, 7, dtype=real_t)
                k(field=f, diffusion_flux=buf, nu_dt_by_dx2=r)
                c = (1,) * D
                tol = 0.0 if dyadic else 8 * float(np.finfo(real_t).eps) * 4 * D * 2
                err = None
                if not (e["lo"] - tol <= f[c] <= e["hi"] + tol):
                    err = f"new value {f[c]} outside [{e['lo']}, {e['hi']}] of its stencil"
                elif abs(float(f[c]) * rd - np.array(e["scaled"])[c]) > tol * rd:
                    err = f"new value {f[c]} differs from the specification {np.array(e['scaled'])[c]}/{rd}"
                else:
                    f[c] = f0[c]
                    if not np.array_equal(f, f0):
                        err = "a boundary-ring cell changed"
                chk.traces += 1
                if err:
                    chk.violation({"kind": "max_principle", "dim": D}, f"diffusion step r={rn}/{rd} {real_t.__name__} on {e['f']}: {err}")
            chk.count(("maxp", shape, rn, rd, real_t.__name__))
    for shape, rn, rd in (((3, 3), 1, 3), ((3, 3, 3), 1, 5)):
        res = tlc.run_wrapped("MC_MaxPrinciple", {"Shape": list(shape), "RNum": rn, "RDen": rd},
                              "SPECIFICATION Spec\nINVARIANT MaxPrinciple\n", raw={"Vals": "-1..1"}, timeout=600)
        chk.add_tlc(f"control r={rn}/{rd} beyond the limit", res, expect_violation="MaxPrinciple")


def run(chk: core.Check):
    shim.install()
    quick = chk.tier == "quick"
    rng = np.random.default_rng(chk.seed)
    res = tlc.run_wrapped("StableDt", {"GuardPlacement": "none"}, INV + "CONSTRAINT EmitState\n", raw=RAW, workers=1, timeout=900)
    chk.add_tlc("StableDt intended", res)
    r2 = tlc.run_wrapped("StableDt", {"GuardPlacement": "added_to_limit"}, INV, raw=RAW, timeout=600)
    chk.add_tlc("control guard added to the diffusive limit", r2, expect_violation="DiffBound")
    r3 = tlc.run_wrapped("StableDt", {"GuardPlacement": "none"}, "SPECIFICATION Spec\nINVARIANT NoDominant\n", raw=RAW, timeout=600)
    chk.add_tlc("control guard-dominant regime occurs", r3, expect_violation="NoDominant")
    cases = tlc.dedupe(res.emits)
    vias = ["helper", "passive", "ns"]
    for i, e in enumerate(cases):
        for real_t in (np.float32, np.float64):
            for via in vias:
                if via != "helper" and quick and i % 4 != 0:
                    continue
                try:
                    err = replay_abstract(e, real_t, via, rng)
                except Exception as ex:
                    err = f"exception {type(ex).__name__}: {ex}"
                chk.traces += 1
                chk.count((tlc.canon(e["cs"]), real_t.__name__, via))
                if err:
                    chk.violation({"kind": "stable_dt", "precision": real_t.__name__, "via": via},
                                  f"stable time step via {via} ({real_t.__name__}) on instance {e['cs']} (guard dominant: {e['dominant']}): {err}",
                                  {"case": e, "error": err})
        if len(chk.samples) < 3 and e["dominant"] and i % 5 == 0:
            chk.sample(e)
    constructor_plumbing(chk, rng, quick)
    simulator_max_principle(chk, rng, quick)
    natural_instances(chk, 400 if quick else 6000, rng)
    max_principle(chk, quick)
    chk.assumptions += [
        "abstract instances (tol = 10 * 2^-13) are mapped onto concrete single/double precision instances by exact power-of-two "
        "scaling of lengths (sigma^2), velocities (sigma), viscosity (sigma^3) and time (sigma); dt compared within 16 eps",
        "simulator classes are driven through their public attributes (dx, cfl, kinematic_viscosity, velocity_field)",
        "maximum principle: exhaustive over all values in the stencil of the single interior cell of the minimal grid; the step is "
        "local, so this is every cell of every grid",
        "viscosity is positive (the diffusive limit is unguarded by design)",
    ]
    return ("case = abstract StableDt instance x precision x entry point (helper / passive simulator / Navier-Stokes simulator), "
            "natural random instances with the inequalities evaluated on the returned dt, and every stencil valuation of the "
            "maximum principle x precision")
