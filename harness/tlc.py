"""TLC runner: exhaustive check / simulate / trace validation, with parsing of counters and of
behaviours emitted as JSON (``PrintT(<<"EMIT", ToJson(...)>>)`` from an ACTION_CONSTRAINT)."""
from __future__ import annotations

import json
import os
import re
import shutil
import subprocess
import tempfile
import time

SPEC_DIR = os.path.join(os.path.dirname(os.path.dirname(os.path.abspath(__file__))), "spec")
TLA_JAR = "/opt/veriftools/tla/tla2tools.jar"


class TLCResult:
    def __init__(self):
        self.ok = False  # TLC finished without error
        self.violation = None  # name of violated invariant / property, or 'deadlock', ...
        self.error = None  # machinery error text (parse error, overflow, ...)
        self.generated = 0
        self.distinct = 0
        self.depth = 0
        self.emits = []  # decoded JSON objects
        self.prints = []  # other PrintT lines
        self.stdout = ""
        self.wall = 0.0
        self.trace = []  # counterexample states as text
        self.coverage = {}
        self.workdir = None

    def summary(self):
        return {
            "ok": self.ok,
            "violation": self.violation,
            "error": self.error,
            "generated": self.generated,
            "distinct": self.distinct,
            "wall_s": round(self.wall, 2),
        }


_re_counts = re.compile(r"(\d+) states generated, (\d+) distinct states found, (\d+) states left on queue")
_re_sim = re.compile(r"The number of states generated: (\d+)")
_re_inv = re.compile(r"Error: Invariant (\S+) is violated")
_re_actprop = re.compile(r"Error: Action property (\S+)")
_re_depth = re.compile(r"The depth of the complete state graph search is (\d+)")


def tla_value(v):
    """Python value -> TLA+ literal for cfg / generated modules."""
    if isinstance(v, bool):
        return "TRUE" if v else "FALSE"
    if isinstance(v, int):
        return str(v)
    if isinstance(v, str):
        return '"' + v + '"'
    if isinstance(v, (list, tuple)):
        return "<<" + ", ".join(tla_value(x) for x in v) + ">>"
    if isinstance(v, (set, frozenset)):
        return "{" + ", ".join(tla_value(x) for x in sorted(v, key=repr)) + "}"
    if isinstance(v, dict):
        return "[" + ", ".join(f"{k} |-> {tla_value(x)}" for k, x in v.items()) + "]"
    raise TypeError(type(v))


def run(
    module: str,
    cfg: str,
    mode: str = "check",
    workers: int | str = "auto",
    simulate: dict | None = None,
    seed: int | None = None,
    timeout: int = 1800,
    extra_modules: dict | None = None,
    coverage: bool = False,
    env: dict | None = None,
    deadlock: bool = False,
    keep: bool = False,
    java_opts: str | None = None,
    heap: str = "4g",
) -> TLCResult:
    """Run TLC on spec/<module>.tla with the given cfg text.

    extra_modules: {name: text} generated modules written next to the copies of spec/*.tla
    (e.g. an MC wrapper with literal constants)."""
    res = TLCResult()
    wd = tempfile.mkdtemp(prefix="tlc_")
    res.workdir = wd
    try:
        for f in os.listdir(SPEC_DIR):
            if f.endswith(".tla"):
                shutil.copy(os.path.join(SPEC_DIR, f), wd)
        for name, text in (extra_modules or {}).items():
            with open(os.path.join(wd, name + ".tla"), "w") as fh:
                fh.write(text)
        with open(os.path.join(wd, module + ".cfg"), "w") as fh:
            fh.write(cfg)
        cmd = ["tlc"]
        if mode == "simulate":
            s = simulate or {}
            arg = f"num={s.get('num', 10)}"
            cmd += ["-simulate", arg, "-depth", str(s.get("depth", 20))]
            workers = 1
        if seed is not None:
            cmd += ["-seed", str(seed)]
        if workers == "auto":
            workers = min(16, os.cpu_count() or 1)
        cmd += ["-workers", str(workers), "-metadir", os.path.join(wd, "meta"), "-noGenerateSpecTE"]
        if coverage:
            cmd += ["-coverage", "1"]
        if deadlock:
            cmd += ["-deadlock"]
        cmd += [module + ".tla"]
        e = dict(os.environ)
        jo = f"-Xmx{heap} -XX:+UseParallelGC -Djava.io.tmpdir={wd}"      # TLC's own scratch directories vanish with wd
        if java_opts:
            jo += " " + java_opts
        e["JAVA_TOOL_OPTIONS"] = jo
        e.pop("_JAVA_OPTIONS", None)
        if env:
            e.update(env)
        t0 = time.time()
        try:
            pr = subprocess.run(cmd, cwd=wd, env=e, capture_output=True, text=True, timeout=timeout)
            out = pr.stdout + "\n" + pr.stderr
            rc = pr.returncode
        except subprocess.TimeoutExpired as ex:
            out = (ex.stdout or b"").decode() if isinstance(ex.stdout, bytes) else (ex.stdout or "")
            rc = -9
            res.error = f"TLC timeout after {timeout}s"
        res.wall = time.time() - t0
        res.stdout = out
        _parse(out, res, rc)
    finally:
        if not keep:
            shutil.rmtree(wd, ignore_errors=True)
    return res


def _parse(out: str, res: TLCResult, rc: int):
    for line in out.splitlines():
        if line.startswith('<<"EMIT", '):
            body = line[len('<<"EMIT", ') :]
            if body.endswith(">>"):
                body = body[:-2]
            try:
                s = json.loads(body)
                res.emits.append(json.loads(s))
            except Exception as ex:  # pragma: no cover
                res.error = f"cannot decode EMIT line: {ex}: {line[:200]}"
        elif line.startswith("<<") or line.startswith('"'):
            res.prints.append(line)
    m = None
    for m in _re_counts.finditer(out):
        pass
    if m:
        res.generated, res.distinct = int(m.group(1)), int(m.group(2))
    m = _re_sim.search(out)
    if m:
        res.generated = int(m.group(1))
        res.distinct = res.distinct or res.generated
    m = _re_depth.search(out)
    if m:
        res.depth = int(m.group(1))
    m = _re_inv.search(out)
    if m:
        res.violation = m.group(1)
    m2 = _re_actprop.search(out)
    if m2 and not res.violation:
        res.violation = m2.group(1)
    if "Error: Deadlock reached" in out and not res.violation:
        res.violation = "deadlock"
    if "Temporal properties were violated" in out and not res.violation:
        res.violation = "temporal"
    if res.violation:
        i = out.find("Error:")
        res.trace = out[i : i + 20000].splitlines()
    errs = [l for l in out.splitlines() if l.startswith("Error:") or "Exception" in l or "***Parse Error***" in l or "Semantic errors" in l]
    if res.violation is None:
        if errs and not res.error:
            i = out.find(errs[0])
            res.error = out[i : i + 3000]
        elif "Model checking completed. No error has been found." in out or "Finished in" in out or _re_sim.search(out):
            if not res.error:
                res.ok = True
        elif not res.error:
            res.error = "TLC did not report completion:\n" + out[-2000:]
    # coverage: lines like "<Init line 12, col 1 to line 12, col 40 of module X>: 1:1"
    for m in re.finditer(r"<(\w+) line \d+, col \d+ to line \d+, col \d+ of module (\w+)>: (\d+):(\d+)", out):
        res.coverage[m.group(1)] = (int(m.group(3)), int(m.group(4)))


def wrap(module: str, consts: dict, raw: dict | None = None, root: str | None = None):
    """MC-wrapper pattern: a root module EXTENDS `module` and defines one operator per
    constant (literal values, so the cfg never needs negative numbers or tuples).
    consts: python values; raw: TLA+ expressions given as text (e.g. "-3..3").
    Returns (root module name, module text, cfg CONSTANTS block)."""
    root = root or ("Run_" + module)
    lines = [f"---- MODULE {root} ----", f"EXTENDS {module}"]
    cfg = ["CONSTANTS"]
    for k, v in consts.items():
        lines.append(f"const_{k} == {tla_value(v)}")
        cfg.append(f"  {k} <- const_{k}")
    for k, v in (raw or {}).items():
        lines.append(f"const_{k} == {v}")
        cfg.append(f"  {k} <- const_{k}")
    lines.append("====")
    return root, "\n".join(lines) + "\n", "\n".join(cfg) + "\n"


def run_wrapped(module, consts, body_cfg, raw=None, **kw):
    root, text, cblock = wrap(module, consts, raw)
    extra = dict(kw.pop("extra_modules", None) or {})
    extra[root] = text
    return run(root, cblock + body_cfg, extra_modules=extra, **kw)


def canon(x):
    """canonical text of a decoded JSON value (record field order is not stable in TLC output)."""
    return json.dumps(x, sort_keys=True)


def dedupe(emits, keyfn=lambda e: e["cs"]):
    seen, out = set(), []
    for e in emits:
        k = canon(keyfn(e))
        if k not in seen:
            seen.add(k)
            out.append(e)
    return out
