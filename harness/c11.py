"""C11 -- the fast-diagonalisation solvers solve the discrete Neumann Poisson problem.

TLC: spec/FastDiag.tla (symmetry, energy form, compatibility of the Neumann Laplacian on a basis;
consistency of the emitted problems).  Replay: problems with known zero-mean solution through
the real 2-D and 3-D solvers; the residual  A u = f - mean f  is also evaluated on the code's
output with an independent edge-padded Laplacian."""
from __future__ import annotations

import numpy as np

from . import core, shim, tlc


def neumann_A(u, h):
    """documented operator: negative Laplacian, missing neighbours contribute nothing."""
    D = u.ndim
    out = np.zeros_like(u, dtype=float)
    p = np.pad(u.astype(float), 1, mode="edge")
    c = tuple(slice(1, -1) for _ in range(D))
    for a in range(D):
        hi = list(c)
        lo = list(c)
        hi[a] = slice(2, None)
        lo[a] = slice(0, -2)
        out += 2 * p[c] - p[tuple(hi)] - p[tuple(lo)]
    return out / h**2


_SOLVERS: dict = {}


def make_solver(shape, h, real_t):
    """one solver object per (shape, spacing, precision): successive problems REUSE it (spectral work buffer included)."""
    key = (tuple(shape), float(h), real_t)
    if key not in _SOLVERS:
        _SOLVERS[key] = _make_solver(shape, h, real_t)
    return _SOLVERS[key]


def _make_solver(shape, h, real_t):
    import sopht.numeric.eulerian_grid_ops as spne

    if len(shape) == 2:
        return spne.FastDiagPoissonSolver2D(grid_size_y=shape[0], grid_size_x=shape[1], dx=real_t(h), real_t=real_t)
    return spne.FastDiagPoissonSolver3D(grid_size_z=shape[0], grid_size_y=shape[1], grid_size_x=shape[2], dx=real_t(h), real_t=real_t)


def solve_case(chk, shape, f, want, h, real_t, label):
    D = len(shape)
    try:
        s = make_solver(shape, h, real_t)
        out = np.full(shape, 7.0, dtype=real_t)
        rhs = (f / h**2).astype(real_t)
        rhs0 = rhs.copy()
        s.solve(solution_field=out, rhs_field=rhs)
    except Exception as ex:
        chk.traces += 1
        chk.violation({"kind": "fastdiag_exception", "dim": D}, f"FastDiagPoissonSolver{D}D {shape} {real_t.__name__}: {type(ex).__name__}: {ex}")
        return
    chk.traces += 1
    chk.count((label, shape, real_t.__name__, h))
    eps = float(np.finfo(real_t).eps)
    n = max(shape)
    # measured on the unchanged solver: error <= 24 eps64 n^2 |u| in double (eigen-decomposition), <= 0.05 eps32 n^2 |u| in single
    tol = (200 * float(np.finfo(np.float64).eps) + (eps if real_t is np.float32 else 0.0)) * n * n * max(1.0, np.abs(want).max())
    errs = []
    if out.dtype != real_t or np.iscomplexobj(out):
        errs.append(f"solution dtype {out.dtype}")
    if not np.all(np.isfinite(out)):
        errs.append("non-finite solution")
    else:
        if abs(float(out.mean())) > tol:
            errs.append(f"mean of the solution = {out.mean()} (must be zero)")
        d = np.abs(out.astype(float) - want).max()
        if d > tol:
            errs.append(f"max |u - expected| = {d:.3g} (allowance {tol:.3g})")
        res = neumann_A(out.astype(float), h) - (rhs0.astype(float) - rhs0.astype(float).mean())
        if np.abs(res).max() > tol * 4 * D / h**2:
            errs.append(f"residual of the discrete Neumann problem = {np.abs(res).max():.3g}")
    if not np.array_equal(rhs, rhs0):
        errs.append("right-hand side modified")
    for er in errs:
        chk.violation({"kind": "fastdiag", "dim": D}, f"FastDiagPoissonSolver{D}D {shape} h={h} {real_t.__name__} ({label}): {er}")


def run(chk: core.Check):
    shim.install()
    quick = chk.tier == "quick"
    rng = np.random.default_rng(chk.seed)
    mshapes = [[2, 2], [3, 4], [2, 3, 2], [3, 3, 3]] if quick else [[2, 2], [2, 5], [3, 4], [4, 4], [2, 3, 2], [3, 3, 3], [2, 4, 3]]
    for shape in mshapes:
        res = tlc.run_wrapped("FastDiag", {"Shape": shape}, "SPECIFICATION Spec\nINVARIANT Laws\nINVARIANT ProblemOk\nCONSTRAINT EmitState\n", workers=1, timeout=1200)
        chk.add_tlc(f"FastDiag{shape}", res)
        seen = set()
        for e in res.emits:
            key = tlc.canon(e["f"])
            if key in seen:
                continue
            seen.add(key)
            f = np.array(e["f"], dtype=float)
            want = np.array(e["sol_times_n"], dtype=float) / e["n"]
            for real_t in (np.float64, np.float32):
                for h in (1.0, 0.25):
                    solve_case(chk, tuple(shape), f, want * 1.0, h, real_t, "tlc")
            if len(chk.samples) < 2:
                chk.sample({"shape": e["shape"], "f": e["f"], "expected_solution_times_n": e["sol_times_n"], "n": e["n"]})
    # larger / non-cubic shapes driven by the same construction (u integer, f = A u + c)
    shapes = [(2, 8), (8, 2), (5, 7), (8, 8), (2, 2, 8), (4, 5, 6), (8, 3, 2), (3, 56), (50, 3, 2), (2, 3, 64)] if quick else \
        [(2, 8), (8, 2), (5, 7), (8, 8), (16, 9), (33, 20), (64, 64), (64, 2), (2, 2, 8), (4, 5, 6), (8, 3, 2), (16, 12, 9), (32, 17, 5), (64, 8, 3)]
    for shape in shapes:
        u = rng.integers(-3, 4, shape).astype(float)
        # plus the smoothest non-constant mode along the longest axis (the eigenvalue closest to the null space)
        ax = int(np.argmax(shape))
        sh = [1] * len(shape)
        sh[ax] = shape[ax]
        u = u + 3.0 * np.cos(np.pi * (np.arange(shape[ax]) + 0.5) / shape[ax]).reshape(sh)
        c = float(rng.integers(-2, 3))
        f = neumann_A(u, 1.0) + c
        want = u - u.mean()
        for real_t in (np.float64, np.float32):
            for h in (1.0, 2.0**-3):
                solve_case(chk, shape, f, want, h, real_t, "random+smooth")
    # histories on one solver object: zero right-hand side into a reused solution array, constant right-hand side (pure null-space
    # component: solution must be zero), repeated solve of the same problem (bit-identical)
    for shape in [(4, 6), (3, 4, 5)] + ([] if quick else [(9, 5), (6, 3, 4)]):
        for real_t in (np.float64, np.float32):
            s = make_solver(shape, 0.5, real_t)
            u = rng.integers(-3, 4, shape).astype(float)
            f = (neumann_A(u, 0.5)).astype(real_t)
            a = np.zeros(shape, dtype=real_t)
            s.solve(solution_field=a, rhs_field=f)
            b = np.full(shape, 5.0, dtype=real_t)
            s.solve(solution_field=b, rhs_field=f)
            z = a.copy()
            s.solve(solution_field=z, rhs_field=np.zeros(shape, dtype=real_t))
            c = a.copy()
            s.solve(solution_field=c, rhs_field=np.full(shape, 3.0, dtype=real_t))
            chk.traces += 1
            chk.count(("history", shape, real_t.__name__))
            tol = 200 * float(np.finfo(real_t).eps) * max(shape) ** 2 * 4
            if not np.array_equal(a, b):
                chk.violation({"kind": "fastdiag_history", "dim": len(shape)}, f"FastDiag {shape} {real_t.__name__}: the same problem solved twice on one object gives different results")
            if np.abs(z).max() > tol or np.abs(c).max() > tol:
                chk.violation({"kind": "fastdiag_history", "dim": len(shape)},
                              f"FastDiag {shape} {real_t.__name__}: zero / constant right-hand side into a reused solution array gives max |u| = {max(np.abs(z).max(), np.abs(c).max()):.3g} (must be 0)")
    # vector solve == three scalar solves (3-D)
    for shape in [(3, 4, 5)] + ([] if quick else [(8, 6, 4)]):
        for real_t in (np.float64, np.float32):
            s = make_solver(shape, 0.5, real_t)
            rhs = rng.integers(-3, 4, (3,) + shape).astype(real_t)
            out = np.zeros_like(rhs)
            s.vector_field_solve(solution_vector_field=out, rhs_vector_field=rhs)
            ref = np.zeros_like(rhs)
            for k in range(3):
                s.solve(solution_field=ref[k], rhs_field=rhs[k])
            chk.traces += 1
            chk.count(("vector", shape, real_t.__name__))
            if not np.array_equal(out, ref):
                chk.violation({"kind": "fastdiag_vector"}, f"vector_field_solve {shape} {real_t.__name__} differs from three scalar solves")
            # the same through a REUSED solution array, with one right-hand side component identically zero / constant
            for k in range(3):
                rhs2 = rhs.copy()
                rhs2[k] = 0 if k != 1 else 2.0
                out2 = out.copy() + real_t(1.5)
                s.vector_field_solve(solution_vector_field=out2, rhs_vector_field=rhs2)
                ref2 = np.full_like(rhs, 9.0)
                for j in range(3):
                    s.solve(solution_field=ref2[j], rhs_field=rhs2[j])
                chk.traces += 1
                chk.count(("vector-degenerate", shape, real_t.__name__, k))
                tol = 200 * float(np.finfo(real_t).eps) * max(shape) ** 2 * 4
                if not np.array_equal(out2, ref2) or np.abs(out2[k]).max() > tol:
                    chk.violation({"kind": "fastdiag_vector"}, f"vector_field_solve {shape} {real_t.__name__} with a null right-hand side in component {k} "
                                  f"into a reused solution array: max |u_k| = {np.abs(out2[k]).max():.3g} (must be 0), equal to three scalar solves: {np.array_equal(out2, ref2)}")
    chk.assumptions += [
        "A is linear: symmetry / energy form / compatibility are checked on all pairs of unit impulses, hence for all real fields; "
        "uniqueness of the zero-mean solution follows from the energy form on the connected grid",
        "solutions compared within (200 eps64 + eps_t) n^2 |u| (conditioning of the eigen-decomposition in double, storage rounding in single), residual evaluated on the code's output with "
        "an independent edge-padded Laplacian",
        "numpy.linalg.eig / inv and tensordot are exercised, not proved",
    ]
    return "case = Neumann problem with known zero-mean solution (TLC-emitted or random integer) x shape x spacing x precision; vector solves"
