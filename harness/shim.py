"""Compatibility shim + kernel capture + exact-rational interpreter back end.

Trusted base (DESIGN.md Appendix C).  Lives in the harness only; /repo is never edited for it.

* pystencils 2.0 is installed although the repository was written for 1.x:
  - ``CreateKernelConfig(default_number_float=X)`` -> ``default_dtype=X``
  - 4-D point-wise kernels (vector element-wise sum / saxpby) cannot be iterated by 2.0; they
    are rebuilt on 3-D fields and applied once per leading index.
* every ``pystencils.create_kernel`` call is recorded (symbolic assignments, config) and every call
  of a compiled kernel can be traced (array bindings) -- binding B-trace (a).
* BACKEND = "compile" -> real compiled kernels (memoised per process);
  BACKEND = "exact"   -> the captured assignments are interpreted with fractions.Fraction on
  NumPy object arrays (binding B-exact); "float" -> same interpreter on the native dtype.

Activate with ``install()`` *before* importing sopht.
"""
from __future__ import annotations

import os
import sys
from fractions import Fraction

import numpy as np

BACKEND = os.environ.get("SOPHT_VERIF_BACKEND", "compile")
KERNELS: list = []  # every KernelProxy created, in creation order
CALL_HOOKS: list = []  # callables(proxy, kwargs) invoked before each compiled-kernel call
POST_CALL_HOOKS: list = []
_COMPILED_CACHE: dict = {}
_installed = False


def install(backend: str | None = None):
    """Patch pystencils (idempotent) and make /repo importable."""
    global _installed, BACKEND
    if backend is not None:
        BACKEND = backend
    repo = os.environ.get("SOPHT_REPO", "/repo")
    if repo not in sys.path:
        sys.path.insert(0, repo)
    if _installed:
        return
    import pystencils as ps

    orig_cfg = ps.CreateKernelConfig
    orig_create = ps.create_kernel

    def cfg_wrapper(*a, **kw):
        if "default_number_float" in kw:
            kw["default_dtype"] = kw.pop("default_number_float")
        meta = dict(kw)
        c = orig_cfg(*a, **kw)
        try:
            object.__setattr__(c, "_verif_meta", meta)
        except Exception:  # pragma: no cover
            pass
        return c

    def create_wrapper(assignments, config=None, **kw):
        return KernelProxy(assignments, config, kw, orig_create)

    ps.CreateKernelConfig = cfg_wrapper
    ps.create_kernel = create_wrapper
    ps._verif_orig_create = orig_create
    ps._verif_orig_cfg = orig_cfg
    _installed = True


def set_backend(b: str):
    global BACKEND
    assert b in ("compile", "exact", "float")
    BACKEND = b


# --------------------------------------------------------------------------------------
def _accesses(expr):
    import pystencils as ps

    return list(expr.atoms(ps.Field.Access))


class KernelProxy:
    """Stands for the object returned by pystencils.create_kernel."""

    def __init__(self, assignments, config, kw, orig_create):
        import pystencils as ps

        self.orig_create = orig_create
        self.config = config
        self.kw = kw
        asg = assignments
        if hasattr(asg, "all_assignments"):
            asg = asg.all_assignments
        self.assignments = list(asg)
        self.meta = getattr(config, "_verif_meta", {}) if config is not None else {}
        self.iteration_slice = self.meta.get("iteration_slice")
        self.openmp = self.meta.get("cpu_openmp", False)
        self.dtype = self.meta.get("default_dtype", self.meta.get("data_type", "float64"))
        # field / offset bookkeeping
        self.writes = []  # (field name, offsets)
        self.reads = []  # (field name, offsets)
        self.fields = {}
        for a in self.assignments:
            lhs = a.lhs
            if isinstance(lhs, ps.Field.Access):
                self.writes.append((lhs.field.name, tuple(int(o) for o in lhs.offsets)))
                self.fields[lhs.field.name] = lhs.field
            for acc in _accesses(a.rhs):
                self.reads.append((acc.field.name, tuple(int(o) for o in acc.offsets)))
                self.fields[acc.field.name] = acc.field
        self.spatial_dims = max((f.spatial_dimensions for f in self.fields.values()), default=0)
        self.reach = max(
            [abs(o) for _, offs in self.reads + self.writes for o in offs] + [0]
        )
        self.pointwise4d = self.spatial_dims == 4 and self.reach == 0
        import inspect

        fr = inspect.stack()[2]
        self.origin = f"{os.path.basename(fr.filename)}:{fr.function}"
        self.kid = len(KERNELS)
        KERNELS.append(self)

    # ---- description used by traces -------------------------------------------------
    def describe(self):
        import sympy as sp

        out = []
        for a in self.assignments:
            out.append({"lhs": str(a.lhs), "rhs": str(sp.nsimplify(a.rhs, rational=True))})
        return {
            "kid": self.kid,
            "origin": self.origin,
            "writes": sorted(set(self.writes)),
            "reads": sorted(set(self.reads)),
            "reach": self.reach,
            "dims": self.spatial_dims,
            "openmp": self.openmp if not isinstance(self.openmp, bool) else int(self.openmp),
            "slice": repr(self.iteration_slice) if self.iteration_slice is not None else None,
            "assignments": out,
        }

    def compile(self):
        return CompiledProxy(self)


def _rebuild_3d(proxy):
    """Rewrite a 4-D point-wise kernel on 3-D fields (same expression, per leading index)."""
    import pystencils as ps

    mapping = {}
    newfields = {}
    for name, f in proxy.fields.items():
        newfields[name] = ps.fields(f"{name}: {proxy.dtype}[3D]")
    new_asg = []
    for a in proxy.assignments:
        repl = {}
        for acc in _accesses(a.rhs) + [a.lhs]:
            repl[acc] = newfields[acc.field.name][0, 0, 0]
        new_asg.append(ps.Assignment(a.lhs.xreplace(repl), a.rhs.xreplace(repl)))
    return new_asg


class CompiledProxy:
    def __init__(self, proxy: KernelProxy):
        self.proxy = proxy
        self._compiled = None
        self._interp = None

    def _get_compiled(self):
        if self._compiled is None:
            p = self.proxy
            import pystencils as ps

            key = (
                tuple(str(a) for a in p.assignments),
                tuple(sorted((k, repr(v)) for k, v in p.meta.items())),
                tuple(sorted((n, str(f.dtype), f.spatial_dimensions, str(f.shape)) for n, f in p.fields.items())),
            )
            if key not in _COMPILED_CACHE:
                if p.pointwise4d:
                    asg = _rebuild_3d(p)
                    cfg = ps._verif_orig_cfg(
                        **{k: v for k, v in p.meta.items() if k != "iteration_slice"}
                    )
                    _COMPILED_CACHE[key] = p.orig_create(asg, config=cfg).compile()
                else:
                    _COMPILED_CACHE[key] = p.orig_create(p.assignments, config=p.config, **p.kw).compile()
            self._compiled = _COMPILED_CACHE[key]
        return self._compiled

    def __call__(self, **kwargs):
        p = self.proxy
        for h in CALL_HOOKS:
            h(p, kwargs)
        if BACKEND == "compile":
            k = self._get_compiled()
            if p.pointwise4d:
                arrs = {n: v for n, v in kwargs.items() if isinstance(v, np.ndarray)}
                rest = {n: v for n, v in kwargs.items() if not isinstance(v, np.ndarray)}
                lead = next(iter(arrs.values())).shape[0]
                for i in range(lead):
                    k(**{n: v[i] for n, v in arrs.items()}, **rest)
            else:
                k(**kwargs)
        else:
            interpret(p, kwargs, exact=(BACKEND == "exact"))
        for h in POST_CALL_HOOKS:
            h(p, kwargs)


# --------------------------------------------------------------------------------------
# exact / float interpreter of captured assignments
def _to_frac(x):
    import sympy as sp

    if isinstance(x, Fraction):
        return x
    if isinstance(x, (int, np.integer)):
        return Fraction(int(x))
    if isinstance(x, (float, np.floating)):
        f = Fraction(float(x))  # exact binary value of the float
        # scalars such as (1.0 / 3.0) written in the wrappers stand for the rational
        g = f.limit_denominator(4096)
        if g != f and abs(float(g) - float(x)) <= 4e-16 * abs(float(x)):
            return g
        return f
    if isinstance(x, sp.Rational):
        return Fraction(int(x.p), int(x.q))
    raise TypeError(type(x))


def _coef(x, exact):
    """sympy number -> Fraction (nsimplify: 0.333.. -> 1/3) or float."""
    import sympy as sp

    if exact:
        r = sp.nsimplify(x, rational=True)
        return Fraction(int(r.p), int(r.q))
    return float(x)


def slice_region(shape, reach, it_slice):
    """Index tuple of the iteration region (as slices) for arrays of `shape`."""
    if it_slice is None:
        return tuple(slice(reach, n - reach) for n in shape)
    out = []
    for s, n in zip(it_slice, shape):
        if isinstance(s, slice):
            start, stop, _ = s.indices(n)
            out.append(slice(start, stop))
        else:
            i = int(s) % n
            out.append(slice(i, i + 1))
    return tuple(out)


def interpret(p: KernelProxy, kwargs, exact=True):
    import pystencils as ps
    import sympy as sp

    arrs = {n: v for n, v in kwargs.items() if isinstance(v, np.ndarray)}
    if p.pointwise4d:
        shape = next(iter(arrs.values())).shape
        region = tuple(slice(0, n) for n in shape)
    else:
        anyarr = arrs[p.writes[0][0]]
        shape = anyarr.shape
        region = slice_region(shape, p.reach, p.iteration_slice)
    if any(r.stop <= r.start for r in region):
        return

    def view(name, offs):
        a = arrs[name]
        idx = tuple(slice(r.start + o, r.stop + o) for r, o in zip(region, offs))
        return a[idx]

    def ev(e):
        if isinstance(e, ps.Field.Access):
            return view(e.field.name, tuple(int(o) for o in e.offsets))
        if e.is_Number:
            return _coef(e, exact)
        if e.is_Symbol:
            v = kwargs[e.name]
            return _to_frac(v) if exact else v
        if e.is_Add:
            acc = ev(e.args[0])
            for a in e.args[1:]:
                acc = acc + ev(a)
            return acc
        if e.is_Mul:
            acc = ev(e.args[0])
            for a in e.args[1:]:
                acc = acc * ev(a)
            return acc
        if e.is_Pow:
            b, ex = e.args
            if ex.is_Integer:
                n = int(ex)
                base = ev(b)
                if n >= 0:
                    return base**n
                if exact:
                    one = Fraction(1)
                    if isinstance(base, np.ndarray):
                        return np.vectorize(lambda v: one / v**(-n), otypes=[object])(base)
                    return one / base ** (-n)
                return 1.0 / base ** (-n)
            raise NotImplementedError(f"power {e}")
        if isinstance(e, sp.Piecewise):
            res = None
            for val, cond in reversed(e.args):
                v = ev(val)
                if cond is sp.true or cond == True:  # noqa: E712
                    res = v
                else:
                    c = evc(cond)
                    res = np.where(c, v, res)
            return res
        if isinstance(e, sp.Abs):
            v = ev(e.args[0])
            return np.abs(v) if not exact else (np.vectorize(abs, otypes=[object])(v) if isinstance(v, np.ndarray) else abs(v))
        if isinstance(e, (sp.sin, sp.cos)):
            if exact:
                raise NotImplementedError("transcendental in exact mode")
            f = np.sin if isinstance(e, sp.sin) else np.cos
            return f(np.asarray(ev(e.args[0]), dtype=float))
        # pystencils may wrap casts
        if e.func.__name__ in ("CastFunc", "tcast"):
            return ev(e.args[0])
        raise NotImplementedError(f"{type(e)}: {e}")

    def evc(c):
        import sympy as sp

        if isinstance(c, sp.And):
            r = evc(c.args[0])
            for a in c.args[1:]:
                r = r & evc(a)
            return r
        if isinstance(c, sp.Or):
            r = evc(c.args[0])
            for a in c.args[1:]:
                r = r | evc(a)
            return r
        l, r = ev(c.lhs), ev(c.rhs)
        op = {
            sp.StrictGreaterThan: np.greater,
            sp.GreaterThan: np.greater_equal,
            sp.StrictLessThan: np.less,
            sp.LessThan: np.less_equal,
        }[type(c)]
        l = np.asarray(l, dtype=object if exact else None)
        r = np.asarray(r, dtype=object if exact else None)
        return op(l, r).astype(bool)

    for a in p.assignments:
        val = ev(a.rhs)
        tgt = view(a.lhs.field.name, tuple(int(o) for o in a.lhs.offsets))
        if isinstance(val, np.ndarray):
            val = val.copy()  # atomic whole-array semantics
        tgt[...] = val


def frac_array(a):
    """float/int array -> object array of Fractions (exact)."""
    out = np.empty(np.shape(a), dtype=object)
    flat = np.asarray(a).reshape(-1)
    o = out.reshape(-1)
    for i, v in enumerate(flat):
        o[i] = _to_frac(v)
    return out
