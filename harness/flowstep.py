"""Replay of simulator steps (shared by C01, C04, C14, C18).  Filled in with FlowStep.tla."""


def conservation_replay(chk):
    chk.notes.append("step-level conservation replay not built yet")
