"""Replay of simulator time steps (shared by C01, C04, C14, C18).

TLC (spec/FlowStep.tla) produces admissible states, the exact vorticity pipeline result and the
symbolic list of velocity-recovery stages; this module loads the states into the REAL simulator
classes (public API only: arrays, `time_step`), poisons every scratch / work buffer, and compares
with an independent reference of the recovery stages built from documented closed forms."""
from __future__ import annotations

import functools
import math

import numpy as np

from . import core, shim, tlc
from .c03 import green

RAW = {"Vals": "-3..3", "UVals": "-2..2", "Group": "{}"}
_SIMS: dict = {}
_DAMP: dict = {}


# ------------------------------------------------------------------------------------------------
def config_consts(cfg):
    """cfg (python) -> constants of FlowStep.tla.  All prefactors must come out as integers:
    PA = dt/h, PR = dt/(2h), PF = dt/(2 h rho), PD = nu dt/h^2; the model's Dt is dt/h."""
    sim = cfg["sim"]
    h = cfg.get("h", 1.0)
    dt = cfg.get("dt", 2.0 * h)
    rho = cfg.get("rho", 1.0)
    nu = cfg.get("nu", 0.5 * h)

    def as_int(x, what):
        if abs(x - round(x)) > 1e-12 or round(x) == 0 and what != "PF":
            raise core.MachineryError(f"configuration {cfg}: {what} = {x} is not a non-zero integer")
        return int(round(x))

    c = {
        "Sim": sim, "Forcing": cfg.get("forcing", False), "FreeStream": cfg.get("free_stream", False),
        "FilterType": cfg.get("filter", "off"), "FilterOrder": cfg.get("order", 1), "ZoneWidth": cfg.get("w", 2),
        "Dt": as_int(dt / h, "Dt"), "PF": as_int(dt / (2 * h * rho), "PF") if cfg.get("forcing", False) else 1,
        "PA": as_int(dt / h, "PA"), "PD": as_int(nu * dt / h**2, "PD"), "PR": as_int(dt / (2 * h), "PR"),
        "Margin": cfg.get("margin", 0), "NoTies": cfg.get("noties", False), "Shape": list(cfg["shape"]),
    }
    return c


def emit_steps(chk, cfg, num, seed, name=None, inv=True):
    body = "SPECIFICATION Spec\n" + ("INVARIANT Realises\nINVARIANT Conserved\nINVARIANT NoHiddenState\n" if inv else "") + "ACTION_CONSTRAINT EmitDone\n"
    steps_per = 30 if cfg["sim"] == "ns3" else 16
    res = tlc.run_wrapped("FlowStep", config_consts(cfg), body, raw=RAW, mode="simulate", simulate={"num": 1, "depth": steps_per * num + 2}, seed=seed, timeout=2400)
    chk.add_tlc(name or f"FlowStep {cfg}", res)
    return res.emits


# ------------------------------------------------------------------------------------------------
def damp_maps(chk, shape, w):
    """(src, fac) of the boundary damping for (shape, w), from spec/MC_Stabilisers.tla."""
    key = (tuple(shape), w)
    if key not in _DAMP:
        if w == 0:
            _DAMP[key] = None
        else:
            consts = {"ChiDen": 4, "Lambdas": {0}, "FilterMargin": 1, "Shape": list(shape), "Kinds": {"damp"}, "Widths": {w}, "Orders": {1}}
            res = tlc.run_wrapped("MC_Stabilisers", consts, "SPECIFICATION Spec\nINVARIANT DampLaws\nCONSTRAINT EmitState\n", raw={"FVals": "{0}"}, workers=1, timeout=900)
            chk.add_tlc(f"damp map {shape} w={w}", res)
            e = res.emits[0]
            src = np.array(e["src"]) - 1
            fac = np.ones(tuple(shape))
            for c in np.ndindex(tuple(shape)):
                f = e["fac"]
                for i in c:
                    f = f[i]
                for j in f:
                    fac[c] *= math.sin(math.pi / 2 * j / w)
            _DAMP[key] = (src, fac)
    return _DAMP[key]


def apply_damp(f, maps):
    if maps is None:
        return f.copy()
    src, fac = maps
    idx = tuple(src[..., a] for a in range(f.ndim))
    return f[idx] * fac


@functools.lru_cache(maxsize=None)
def green_matrix(shape, h):
    cells = list(np.ndindex(shape))
    D = len(shape)
    n = len(cells)
    K = np.empty((n, n))
    for i, ci in enumerate(cells):
        for j, cj in enumerate(cells):
            K[i, j] = green(tuple(abs(a - b) for a, b in zip(ci, cj)), h, D) * h**D
    return K


@functools.lru_cache(maxsize=None)
def neumann_pinv(shape, h):
    """pseudo-inverse of the documented Neumann negative Laplacian (dense, independent of the solver)."""
    def lap1(n):
        A = 2 * np.eye(n) - np.eye(n, k=1) - np.eye(n, k=-1)
        A[0, 0] = A[-1, -1] = 1
        return A / h**2
    mats = [lap1(n) for n in shape]
    n = int(np.prod(shape))
    A = np.zeros((n, n))
    for a, M in enumerate(mats):
        left = np.eye(int(np.prod(shape[:a]))) if a > 0 else np.eye(1)
        right = np.eye(int(np.prod(shape[a + 1:]))) if a < len(shape) - 1 else np.eye(1)
        A += np.kron(np.kron(left, M), right)
    return np.linalg.pinv(A, hermitian=True)


def ref_solve(om, h, solver):
    shape = om.shape
    if solver == "fast_diagonalisation":
        P = neumann_pinv(shape, h)
        f = om.reshape(-1) - om.mean()
        return (P @ f).reshape(shape)
    return (green_matrix(shape, h) @ om.reshape(-1)).reshape(shape)


def cd(a, axis):
    out = np.zeros_like(a)
    sl_c = [slice(None)] * a.ndim
    hi = [slice(None)] * a.ndim
    lo = [slice(None)] * a.ndim
    sl_c[axis] = slice(1, -1)
    hi[axis] = slice(2, None)
    lo[axis] = slice(0, -2)
    out[tuple(sl_c)] = a[tuple(hi)] - a[tuple(lo)]
    return out


def ring_zero(a):
    b = np.zeros_like(a)
    inner = tuple(slice(1, -1) for _ in range(a.ndim))
    b[inner] = a[inner]
    return b


def ref_velocity(om_damped, h, solver, U):
    """documented recovery: psi = solve(omega); u = curl(psi) / (2h) with ring reset; + free stream."""
    D = om_damped[0].ndim
    if D == 2:
        psi = ref_solve(om_damped[0], h, "greens")
        u = np.stack([ring_zero(cd(psi, 0)), ring_zero(-cd(psi, 1))]) / (2 * h)   # (d psi/dy, -d psi/dx); y = axis 0
    else:
        psi = [ref_solve(om_damped[k], h, solver) for k in range(3)]
        ax = {1: 2, 2: 1, 3: 0}  # physical axis -> array axis
        def d(f, k):
            return cd(f, ax[k])
        u = np.stack([
            ring_zero(d(psi[2], 2) - d(psi[1], 3)),
            ring_zero(d(psi[0], 3) - d(psi[2], 1)),
            ring_zero(d(psi[1], 1) - d(psi[0], 2)),
        ]) / (2 * h)
    return u + np.array(U).reshape((D,) + (1,) * D)


# ------------------------------------------------------------------------------------------------
def cfg_nu(cfg):
    return cfg.get("nu", 0.5 * cfg.get("h", 1.0))


def cfg_dt(cfg):
    return cfg.get("dt", 2.0 * cfg.get("h", 1.0))


T0_AT_CONSTRUCTION = 2.625
CONSTRUCTION_ISSUES: list = []


def get_sim(cfg, real_t):
    import sopht.simulator as sps

    key = (cfg["sim"], tuple(cfg["shape"]), cfg.get("forcing", False), cfg.get("free_stream", False), cfg.get("filter", "off"),
           cfg.get("order", 1), cfg.get("w", 2), cfg.get("solver", "greens_function_convolution"), cfg.get("rho", 1.0), cfg_nu(cfg),
           cfg.get("h", 1.0), real_t, cfg.get("threads", 1))
    if key not in _SIMS:
        shape = tuple(cfg["shape"])
        xr = float(shape[-1]) * cfg.get("h", 1.0)
        t0 = T0_AT_CONSTRUCTION
        if cfg["sim"] == "ns2":
            s = sps.UnboundedNavierStokesFlowSimulator2D(
                grid_size=shape, x_range=xr, kinematic_viscosity=cfg_nu(cfg), real_t=real_t, with_forcing=cfg.get("forcing", False),
                with_free_stream_flow=cfg.get("free_stream", False), flow_density=cfg.get("rho", 1.0), penalty_zone_width=cfg.get("w", 2),
                num_threads=cfg.get("threads", 1), time=t0)
        elif cfg["sim"] == "ns3":
            kw = {}
            if cfg.get("filter", "off") != "off":
                kw = {"filter_vorticity": True, "filter_setting_dict": {"order": cfg.get("order", 1), "type": cfg["filter"]}}
            s = sps.UnboundedNavierStokesFlowSimulator3D(
                grid_size=shape, x_range=xr, kinematic_viscosity=cfg_nu(cfg), real_t=real_t, with_forcing=cfg.get("forcing", False),
                with_free_stream_flow=cfg.get("free_stream", False), flow_density=cfg.get("rho", 1.0), penalty_zone_width=cfg.get("w", 2),
                poisson_solver_type=cfg.get("solver", "greens_function_convolution"), num_threads=cfg.get("threads", 1), time=t0, **kw)
        else:
            s = sps.PassiveTransportFlowSimulator(
                kinematic_viscosity=cfg_nu(cfg), grid_dim=len(shape), grid_size=shape, x_range=xr, real_t=real_t,
                field_type="scalar" if cfg["sim"] == "pt_scalar" else "vector", num_threads=cfg.get("threads", 1), time=t0)
        # the clock starts at the `time` argument (restarts construct simulators at the checkpoint's time)
        if float(s.time) != t0:
            CONSTRUCTION_ISSUES.append(f"{type(s).__name__}(time={t0}) starts with time = {s.time!r}")
        _SIMS[key] = s
    return _SIMS[key]


def poison_scratch(sim, rng):
    """every scratch array / solver work buffer holds garbage before the step (the model's havoc)."""
    for name in ("buffer_scalar_field", "buffer_vector_field", "stream_func_field"):
        a = getattr(sim, name, None)
        if a is not None:
            a[...] = rng.normal(size=a.shape) * 1e3
    sol = getattr(sim, "_unbounded_poisson_solver", None)
    if sol is not None:
        for name in ("domain_doubled_buffer", "spectral_field_buffer"):
            a = getattr(sol, name, None)
            if a is not None:
                a[...] = rng.normal(size=a.shape) * 1e3
        for name in ("convolution_buffer", "domain_doubled_fourier_buffer"):
            a = getattr(sol, name, None)
            if a is not None:
                a[...] = (rng.normal(size=a.shape) * 1e3).astype(a.dtype)


def load_state(sim, cfg, e, real_t):
    om0 = np.array(e["om0"], dtype=real_t)
    primary = "vorticity_field" if cfg["sim"] in ("ns2", "ns3") else "primary_field"
    tgt = getattr(sim, primary)
    tgt[...] = om0[0] if tgt.ndim == len(cfg["shape"]) else om0
    sim.velocity_field[...] = np.array(e["vel0"], dtype=real_t)
    if cfg.get("forcing", False):
        sim.eul_grid_forcing_field[...] = np.array(e["frc0"], dtype=real_t)
    sim.time = float(e["time0"])
    return primary


def run_step(sim, cfg, U):
    Dt = cfg_dt(cfg)
    if cfg["sim"] in ("ns2", "ns3"):
        if cfg.get("free_stream", False):
            sim.time_step(dt=float(Dt), free_stream_velocity=np.array(U, dtype=float))
        else:
            sim.time_step(dt=float(Dt))
    else:
        sim.time_step(dt=float(Dt))


FREE_STREAMS = [[1.5, -0.5, 0.25], [0.0, 0.0, 0.75], [2.0, 0.0, 0.0], [0.0, -1.25, 0.0], [1.5, -0.5, 0.25], [0.0, 0.5, 0.25]]
_UCOUNT: dict = {}


def next_free_stream(cfg):
    """cycles through FREE_STREAMS per configuration (so every free-stream configuration meets every alignment early)."""
    key = (cfg["sim"], tuple(cfg["shape"]), cfg.get("forcing", False))
    i = _UCOUNT.get(key, 0)
    _UCOUNT[key] = i + 1
    return FREE_STREAMS[i % len(FREE_STREAMS)][: len(cfg["shape"])]


def replay_step(chk, cfg, e, real_t, rng):
    """-> list of error texts."""
    shim.set_backend("compile")
    sim = get_sim(cfg, real_t)
    D = len(cfg["shape"])
    h = cfg.get("h", 1.0)
    # free stream: generic, and aligned with each single axis (zero components are inputs too)
    U = next_free_stream(cfg)
    primary = load_state(sim, cfg, e, real_t)
    poison_scratch(sim, rng)
    vel0 = sim.velocity_field.copy()
    run_step(sim, cfg, U)
    errs = []
    eps = 1e-11 if real_t == np.float64 else 2e-4
    om_spec = np.array(e["om"], dtype=float) / e["scale"]
    mag = max(1.0, np.abs(om_spec).max())
    isns = cfg["sim"] in ("ns2", "ns3")
    want_om = np.stack([apply_damp(om_spec[k], damp_maps(chk, cfg["shape"], cfg.get("w", 2))) for k in range(om_spec.shape[0])]) if isns else om_spec
    got = getattr(sim, primary).astype(float)
    got = got[None] if got.ndim == D else got
    if not np.all(np.isfinite(got)):
        errs.append("non-finite vorticity / primary field")
    elif np.abs(got - want_om).max() > eps * mag:
        c = np.unravel_index(np.argmax(np.abs(got - want_om)), got.shape)
        errs.append(f"{primary} differs from the documented pipeline by {np.abs(got - want_om).max():.3g} at {c} (code {got[c]}, reference {want_om[c]})")
    if float(sim.time) != float(e["time0"]) + cfg_dt(cfg) or (e["time"] - e["time0"]) * h != cfg_dt(cfg):
        errs.append(f"time = {sim.time!r}, expected {e['time0']} + {cfg_dt(cfg)}")
    if abs(float(sim.dx) - h) > 0:
        raise core.MachineryError(f"simulator spacing {sim.dx} != configured {h}")
    if isns:
        if cfg.get("forcing", False) and np.any(sim.eul_grid_forcing_field != 0):
            errs.append("body-forcing field is not identically zero on return")
        want_u = ref_velocity(want_om, h, cfg.get("solver", "greens_function_convolution"), U if cfg.get("free_stream", False) else [0.0] * D)
        du = np.abs(sim.velocity_field.astype(float) - want_u).max()
        umag = max(1.0, np.abs(want_u).max())
        if not du <= 50 * eps * umag:
            c = np.unravel_index(np.argmax(np.abs(sim.velocity_field.astype(float) - want_u)), want_u.shape)
            errs.append(f"velocity differs from curl(solve(omega)) + free stream {U} by {du:.3g} at {c} (code {sim.velocity_field[c]}, reference {want_u[c]})")
    else:
        if not np.array_equal(sim.velocity_field, vel0):
            errs.append("passive transport modified the velocity field")
    return errs


# ------------------------------------------------------------------------------------------------
def conservation_replay(chk):
    """C04 step level: compactly supported states through the real simulators; grid sums on their own arrays.
    The post-step support must also stay out of the damping zone: margin = max(model margin, w + growth)."""
    quick = chk.tier == "quick"
    rng = np.random.default_rng(chk.seed + 11)
    cfgs = [
        {"sim": "ns2", "shape": (15, 16), "forcing": True, "free_stream": True, "w": 2, "margin": 6},
        {"sim": "pt_scalar", "shape": (12, 13), "margin": 4},
        {"sim": "ns3", "shape": (11, 11, 12), "forcing": True, "w": 2, "margin": 5},
    ]
    if not quick:
        cfgs += [{"sim": "ns3", "shape": (11, 12, 12), "forcing": True, "filter": "multiplicative", "order": 1, "w": 2, "margin": 5},
                 {"sim": "pt_vector", "shape": (10, 10, 11), "margin": 4},{"sim": "ns3", "shape": (13, 13, 12), "forcing": False, "filter": "convolution", "order": 2, "w": 1, "margin": 5},
                 {"sim": "ns2", "shape": (14, 14), "forcing": False, "w": 4, "margin": 7}]
        cfgs = cfgs + []
    for cfg in cfgs:
        for e in emit_steps(chk, cfg, 2 if quick else 6, chk.seed, name=f"FlowStep conservation {cfg['sim']} margin {cfg['margin']}"):
            for real_t in (np.float64,):
                sim = get_sim(cfg, real_t)
                primary = load_state(sim, cfg, e, real_t)
                poison_scratch(sim, rng)
                before = getattr(sim, primary).astype(float)
                run_step(sim, cfg, [1.5, -0.5, 0.25][: len(cfg["shape"])])
                after = getattr(sim, primary).astype(float)
                D = len(cfg["shape"])
                b = before.reshape((-1,) + before.shape[-D:]).reshape(before.size // int(np.prod(cfg["shape"])), -1).sum(axis=1)
                a = after.reshape(b.size, -1).sum(axis=1)
                l1 = np.abs(before).sum() + np.abs(np.array(e["frc0"])).sum() + 1
                chk.traces += 1
                chk.count(("step_sum", cfg["sim"], tlc.canon(e["om0"])[:64]))
                if np.abs(a - b).max() > 1e-11 * l1 * 50:
                    chk.violation({"kind": "step_sum", "sim": cfg["sim"]},
                                  f"{cfg}: grid sum of {primary} changed from {b} to {a} in one step of a compactly supported state")
    # the model's own margins: too small a margin must be refuted
    bad = {"sim": "pt_scalar", "shape": (10, 10), "margin": 3}
    res = tlc.run_wrapped("FlowStep", config_consts(bad), "SPECIFICATION Spec\nINVARIANT Conserved\n", raw=RAW, mode="simulate",
                          simulate={"num": 30, "depth": 16}, seed=chk.seed, timeout=600)
    chk.add_tlc("control step-level margin 3 (ENO3 needs 4)", res, expect_violation="Conserved")
