"""C12 -- discrete vector-calculus identities.

TLC checks spec/MC_Identities.tla on unit impulses of every input sample (linear operators:
all inputs) and dense fields; the same compositions are then executed through the REAL
generators (exact-rational and compiled) on the states TLC enumerated, the identities being
evaluated on the code's own outputs."""
from __future__ import annotations

from fractions import Fraction

import numpy as np

from . import core, kernels, shim, tlc

INVS = "SPECIFICATION Spec\nINVARIANT DivCurl\nINVARIANT UpdateKeepsDiv\nINVARIANT StreamFn\nINVARIANT UpdateIsCurl\nINVARIANT PenIsForcing\n"


def dense(shape, s):
    idx = np.indices(shape) + 1
    D = len(shape)
    return ((3 * idx[0] + 5 * idx[1] + 7 * idx[D - 1] * s + idx[0] * idx[1]) % 7) - 3


def cdiff(a, axis):
    """central difference a[i+1] - a[i-1] on the interior of that axis (numpy, on code outputs)."""
    n = a.shape[axis]
    hi = np.take(a, range(2, n), axis=axis)
    lo = np.take(a, range(0, n - 2), axis=axis)
    return hi - lo


def inner(a, w):
    return a[tuple(slice(w, n - w) for n in a.shape)]


def replay(e, backend, real_t, arena="contig"):
    """arena = "pad": every operand is a strided view into a larger guard buffer (the library passes views to its own kernels)."""
    shim.set_backend(backend)
    shape = tuple(e["shape"])
    D = len(shape)
    rt = np.float64 if backend == "exact" else real_t
    ar = kernels.Arena(arena)
    kernels.FIXED_GRID[0] = shape if arena != "contig" else None      # strided replays also pass `fixed_grid_size`, as the simulators do
    mk = (lambda a: shim.frac_array(a)) if backend == "exact" else (lambda a: ar.make(np.asarray(a), real_t))
    num = (lambda x: Fraction(x)) if backend == "exact" else (lambda x: real_t(x))
    G = lambda n, **kw: kernels.gen(n, rt, **kw)  # noqa: E731
    errs = []
    vf = np.array(e["vf"])
    sf = np.array(e["sf"])

    def nz(a):
        return any(x != 0 for x in np.asarray(a).reshape(-1))

    if D == 3:
        curl = mk(np.full((3,) + shape, 9))
        G("gen_curl_pyst_kernel_3d")(curl=curl, field=mk(vf), prefactor=num(1))
        div = mk(np.full(shape, 9))
        G("gen_divergence_pyst_kernel_3d")(divergence=div, field=curl, inv_dx=num(2))
        if nz(inner(div, 2)):
            errs.append("div(curl F) != 0 at a cell of depth >= 2")
        om0 = np.stack([dense(shape, k) for k in (1, 2, 3)])
        om = mk(om0)
        G("gen_update_vorticity_from_velocity_forcing_pyst_kernel_3d")(vorticity_field=om, velocity_forcing_field=mk(vf), prefactor=num(3))
        want = mk(om0) + 3 * curl
        if nz(om - want):
            errs.append("update_vorticity_from_velocity_forcing != omega + p * curl(F) with the library's own curl")
        d0, d1 = mk(np.zeros(shape)), mk(np.zeros(shape))
        G("gen_divergence_pyst_kernel_3d")(divergence=d0, field=mk(om0), inv_dx=num(2))
        G("gen_divergence_pyst_kernel_3d")(divergence=d1, field=om, inv_dx=num(2))
        if nz(inner(d1 - d0, 2)):
            errs.append("forcing update changed div(omega) at a cell of depth >= 2")
        W = np.stack([dense(shape, k + 2) for k in (1, 2, 3)])
        a, b = mk(om0), mk(om0)
        G("gen_update_vorticity_from_penalised_velocity_pyst_kernel_3d")(
            vorticity_field=a, penalised_velocity_field=mk(vf), velocity_field=mk(W), prefactor=num(3))
        G("gen_update_vorticity_from_velocity_forcing_pyst_kernel_3d")(vorticity_field=b, velocity_forcing_field=mk(vf - W), prefactor=num(3))
        if nz(a - b):
            errs.append("penalised-velocity update != forcing update of the difference")
    else:
        V = mk(np.full((2,) + shape, 9))
        G("gen_outplane_field_curl_pyst_kernel_2d")(curl=V, field=mk(sf), prefactor=num(1))
        # divergence of the code's velocity, central differences (x = last axis)
        dv = cdiff(V[0], 1)[1:-1, :] + cdiff(V[1], 0)[:, 1:-1]
        if nz(inner(dv, 1)):
            errs.append("div(curl psi) != 0 at a cell of depth >= 2")
        cz = mk(np.full(shape, 9))
        G("gen_inplane_field_curl_pyst_kernel_2d")(curl=cz, field=V, prefactor=num(1))
        s = mk(sf)
        wide = -(s[2:-2, 4:] + s[2:-2, :-4] + s[4:, 2:-2] + s[:-4, 2:-2] - 4 * s[2:-2, 2:-2])
        if nz(inner(cz, 2) - wide):
            errs.append("curl(curl psi) != -(wide 2h Laplacian of psi) at a cell of depth >= 2")
        om0 = dense(shape, 1)
        om = mk(om0)
        G("gen_update_vorticity_from_velocity_forcing_pyst_kernel_2d")(vorticity_field=om, velocity_forcing_field=mk(vf), prefactor=num(3))
        c2 = mk(np.zeros(shape))
        G("gen_inplane_field_curl_pyst_kernel_2d")(curl=c2, field=mk(vf), prefactor=num(1))
        want = mk(om0)
        want[1:-1, 1:-1] = want[1:-1, 1:-1] + 3 * c2[1:-1, 1:-1]
        if nz(om - want):
            errs.append("update_vorticity_from_velocity_forcing != omega + p * curl(F) with the library's own curl")
        W = np.stack([dense(shape, k + 2) for k in (1, 2)])
        a, b = mk(om0), mk(om0)
        G("gen_update_vorticity_from_penalised_velocity_pyst_kernel_2d")(
            vorticity_field=a, penalised_velocity_field=mk(vf), velocity_field=mk(W), prefactor=num(3))
        G("gen_update_vorticity_from_velocity_forcing_pyst_kernel_2d")(vorticity_field=b, velocity_forcing_field=mk(vf - W), prefactor=num(3))
        if nz(a - b):
            errs.append("penalised-velocity update != forcing update of the difference")
    kernels.FIXED_GRID[0] = None
    if not ar.guards_intact():
        errs.append("a kernel wrote outside the view it was given")
    return errs


def simulator_divergence(chk):
    """3-D simulator: vorticity produced by the real forcing curl from compact integer forcing has
    exactly zero discrete divergence as reported by get_vorticity_divergence_l2_norm()."""
    import sopht.simulator as sps

    shim.set_backend("compile")
    sim = sps.UnboundedNavierStokesFlowSimulator3D(
        grid_size=(8, 8, 10), x_range=10.0, kinematic_viscosity=0.01, real_t=np.float64, with_forcing=True)
    rng = np.random.default_rng(chk.seed)
    for trial in range(3):
        sim.vorticity_field[...] = 0
        F = np.zeros_like(sim.eul_grid_forcing_field)
        F[:, 2:-2, 2:-2, 2:-2] = rng.integers(-3, 4, F[:, 2:-2, 2:-2, 2:-2].shape)
        sim._update_vorticity_from_velocity_forcing(vorticity_field=sim.vorticity_field, velocity_forcing_field=F, prefactor=np.float64(0.5))
        n = sim.get_vorticity_divergence_l2_norm()
        chk.traces += 1
        chk.count(("sim_div", trial))
        if n != 0.0:
            chk.violation({"kind": "simulator_divergence"}, f"3-D simulator reports |div omega| = {n} after a pure forcing-curl update of compact integer forcing")


def run(chk: core.Check):
    shim.install()
    quick = chk.tier == "quick"
    shapes = [(6, 7), (5, 5, 6)] if quick else [(6, 7), (7, 6), (9, 8), (5, 5, 6), (6, 5, 5), (6, 7, 6)]
    variants = [("exact", np.float64, "contig"), ("compile", np.float64, "contig"), ("compile", np.float64, "pad")] + (
        [] if quick else [("compile", np.float32, "contig"), ("compile", np.float32, "pad")])
    for shape in shapes:
        res = tlc.run_wrapped("MC_Identities", {"Shape": list(shape)}, INVS + "CONSTRAINT EmitState\n", workers=1, timeout=1200)
        chk.add_tlc(f"MC_Identities{list(shape)}", res)
        seen = set()
        for e in res.emits:
            key = tlc.canon(e["cs"])
            if key in seen:
                continue
            seen.add(key)
            for backend, real_t, arena in variants:
                if arena == "pad" and (len(seen) % 4 != 1):
                    continue                      # strided operands: every fourth case
                try:
                    errs = replay(e, backend, real_t, arena)
                except Exception as ex:
                    kernels.FIXED_GRID[0] = None
                    errs = [f"exception {type(ex).__name__}: {ex}"]
                chk.traces += 1
                chk.count((key, shape, backend, real_t.__name__, arena))
                for er in errs:
                    chk.violation({"kind": "identity", "dim": len(shape)}, f"{e['cs']} shape={shape} {backend}/{real_t.__name__}/{arena}: {er}", {"case": e["cs"], "error": er})
            if len(chk.samples) < 3 and e["cs"]["kind"] == "imp" and min(e["cs"]["c0"]) >= 3:
                chk.sample({"cs": e["cs"], "shape": e["shape"]})
    res = tlc.run_wrapped("MC_Identities", {"Shape": [5, 5, 6]}, "SPECIFICATION Spec\nINVARIANT DivCurlAtDepth1\n", timeout=600)
    chk.add_tlc("control DivCurlAtDepth1", res, expect_violation="DivCurlAtDepth1")
    simulator_divergence(chk)
    chk.assumptions += [
        "all operators involved are linear: unit impulses of every input sample (every component, every cell) cover all real fields",
        "2-D discrete divergence of the recovered velocity is evaluated by central differences on the code's own output (there is "
        "no public 2-D divergence kernel)",
        "compat shim, exact-rational interpreter and TLC are trusted",
    ]
    return "case = unit impulse (component, cell) or dense field; identities evaluated on the real kernels' outputs per backend"
