"""C13 -- every grid kernel writes its documented formula on its documented region only.

TLC simulates spec/MC_Kernels.tla (one Apply action per public kernel, random and unit-impulse
states, every array of the state is part of the transition) and checks the frame property;
every emitted transition is replayed through the real generators (compiled, both precisions,
contiguous and strided views with guard cells) and through the exact-rational interpreter."""
from __future__ import annotations

import numpy as np

from . import core, kernels, shim, tlc

CFG = "SPECIFICATION Spec\nACTION_CONSTRAINT Emit\nPROPERTY Frame\n"


def emit_cases(shape, impulses, num, seed, chk, vals="-3..3", pvals="{-2, -1, 1, 2, 3}"):
    nops = 26 if len(shape) == 2 else 45
    res = tlc.run_wrapped(
        "MC_Kernels",
        {"Shape": list(shape), "Impulses": impulses, "OnlyOps": set()},
        CFG,
        raw={"Vals": vals, "PVals": pvals},
        mode="simulate",
        simulate={"num": num, "depth": 2 * nops + 2},
        seed=seed,
        timeout=900,
    )
    chk.add_tlc(f"MC_Kernels{list(shape)}{'imp' if impulses else ''}", res)
    return res.emits


def run(chk: core.Check):
    tier, seed = chk.tier, chk.seed
    shim.install()
    if tier == "quick":
        plans = [((5, 6), False, 2), ((5, 6), True, 1), ((5, 6, 7), False, 1), ((5, 5, 6), True, 1)]
        variants = [
            (np.float64, "compile", "contig"),
            (np.float64, "exact", "contig"),
            (np.float32, "compile", "pad"),
            (np.float64, "compile", "step"),
        ]
    else:
        plans = [
            ((5, 6), False, 6), ((5, 6), True, 4), ((7, 5), False, 4), ((5, 5), False, 2), ((9, 12), False, 2),
            ((5, 6, 7), False, 3), ((5, 5, 6), True, 3), ((7, 6, 5), False, 2), ((5, 5, 5), False, 2),
        ]
        variants = [
            (np.float64, "compile", "contig"), (np.float64, "exact", "contig"),
            (np.float32, "compile", "contig"), (np.float32, "compile", "pad"),
            (np.float64, "compile", "pad"), (np.float64, "compile", "step"), (np.float32, "compile", "step"),
        ]
    seen_ops = set()
    for pi, (shape, imp, num) in enumerate(plans):
        emits = emit_cases(shape, imp, num, seed + pi, chk)
        for e in emits:
            opkey = (e["op"]["name"], e["op"]["reset"], e["op"]["w"], e["op"]["n"], e["op"]["ty"], len(shape))
            seen_ops.add(opkey)
            for real_t, backend, arena in variants:
                if backend == "exact" and (len(shape) == 3 and e["op"]["name"] in ("filter_vec",) and tier == "quick"):
                    pass
                try:
                    errs = kernels.replay_emit(e, real_t, backend, arena)
                except Exception as ex:  # the real kernel raised
                    errs = [f"exception {type(ex).__name__}: {ex}"]
                if errs == ["skip"]:
                    continue
                chk.traces += 1
                chk.count((opkey, shape, imp, real_t.__name__, backend, arena))
                if errs:
                    chk.violation(
                        {"op": e["op"]["name"], "dim": len(shape)},
                        f"kernel {e['op']} shape={shape} dtype={real_t.__name__} backend={backend} arena={arena}: "
                        + "; ".join(errs[:3]),
                        {"emit": e, "errors": errs},
                    )
            if len(chk.samples) < 3 and e["op"]["name"] in ("diff_flux", "adv_step", "curl3"):
                chk.sample({"op": e["op"], "ps": e["ps"], "shape": e["shape"],
                            "pre_s1": e["pre"]["s"][0], "post_s1": e["post"]["s"][0]})
    chk.extra["ops_covered"] = len(seen_ops)
    # kernels with rational / symbolic results (Brinkmann penalisation, boundary-zone damping, characteristic function) are modelled
    # in MC_Stabilisers / CharFunc: their closed forms and write regions are replayed here as well (shared with C19)
    from . import c19
    from . import tlc as _tlc

    rng = np.random.default_rng(seed)
    r = c19.mc(chk, "MC_Stabilisers 2D brinkmann+damp", (7, 9), {"brinkmann", "damp"}, widths=(0, 1, 2, 3), emit=True)
    cases = _tlc.dedupe(r.emits)
    c19.replay_brinkmann(chk, [e for e in cases if e["cs"]["kind"] == "brinkmann"])
    for e in cases:
        if e["cs"]["kind"] == "damp":
            c19.replay_damp(chk, e, rng)
    r = c19.mc(chk, "MC_Stabilisers 3D damp", (6, 7, 9), {"damp"}, widths=(0, 1, 2) if tier == "quick" else (0, 1, 2, 3), emit=True)   # zones of opposite sides must not overlap (2 w <= smallest extent)
    for e in _tlc.dedupe(r.emits):
        c19.replay_damp(chk, e, rng)
    c19.char_func(chk, tier == "quick")
    chk.assumptions += [
        "compat shim (harness/shim.py) between SophT and pystencils 2.0 is behaviour preserving",
        "TLC evaluates the specification correctly; JSON emission is faithful",
        "field values are small lattice integers (bit-exact in both precisions); real-valued inputs are covered through "
        "linearity/bilinearity of the stencils (unit impulses) rather than enumerated",
        "ENO3 / SSP-RK3 kernels (non-dyadic coefficients) compared within 512 eps * max|value| in floating point and "
        "with equality through the exact-rational interpreter",
    ]
    return (
        "one case = one (operation+options, shape, random or impulse state, dtype, backend, memory layout) replayed through "
        "the real generator; distinct = distinct such tuples; every array of the state compared (outputs, inputs, bystanders)"
    )
