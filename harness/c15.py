"""C15 -- results do not depend on thread count or iteration order.

TLC: spec/Sched.tla -- a kernel call as per-cell Load/Store micro-steps under arbitrary
interleaving equals the atomic whole-array semantics exactly for the classes "output distinct from
inputs" and "output aliased only to centre-read inputs"; aliased neighbour reads are refuted.
Binding (B-trace a): every compiled-kernel call made by every public generator, by simulator
steps, Poisson solves and the coupling reset is recorded with its symbolic read/write offsets and
the memory relation of its actual array bindings, and the trace is validated by TLC against the
monitor spec/TraceKernels.tla.  B-float: every kernel of the zoo gives bit-identical results for
1, 2, 5 and 16 threads on non-integer data; spreading kernels must be serial numba kernels."""
from __future__ import annotations

import json
import os
import tempfile

import numpy as np

from . import core, flowstep, kernels, shim, tlc
from .c13 import CFG as KCFG

EVENTS: list = []
_seen: dict = {}


def relation(a, b):
    if a is b or (a.__array_interface__["data"][0] == b.__array_interface__["data"][0] and a.shape == b.shape and a.strides == b.strides):
        return "same"
    try:
        return "partial" if np.shares_memory(a, b, max_work=10**6) else "disjoint"
    except Exception:
        return "partial" if np.may_share_memory(a, b) else "disjoint"


def hook(p, kwargs):
    arrs = {n: v for n, v in kwargs.items() if isinstance(v, np.ndarray)}
    wnames = sorted({n for n, _ in p.writes})
    rnames = sorted({n for n, _ in p.reads})
    writes = [{"name": n, "center": all(all(o == 0 for o in offs) for m, offs in p.writes if m == n)} for n in wnames]
    reads = [{"name": n, "center": all(all(o == 0 for o in offs) for m, offs in p.reads if m == n)} for n in rnames]
    rel = [[relation(arrs[w], arrs[r]) for r in rnames] for w in wnames]
    wrel = [[("same" if i == j else relation(arrs[w], arrs[v])) if i != j else "self" for j, v in enumerate(wnames)] for i, w in enumerate(wnames)]
    wrel = [[("disjoint" if x == "self" else x) for x in row] for row in wrel]
    ev = {"origin": p.origin, "writes": writes, "reads": reads, "rel": rel, "wrel": wrel, "openmp": str(p.openmp)}
    key = json.dumps(ev, sort_keys=True)
    if key not in _seen:
        _seen[key] = len(EVENTS)
        ev["count"] = 0
        EVENTS.append(ev)
    EVENTS[_seen[key]]["count"] += 1


def validate_trace(chk, events, name, expect_reject=False):
    d = tempfile.mkdtemp(prefix="trace_")
    path = os.path.join(d, "trace.json")
    with open(path, "w") as fh:
        json.dump(events, fh)
    res = tlc.run("TraceKernels", "SPECIFICATION Spec\nPOSTCONDITION Accepted\nCHECK_DEADLOCK FALSE\n", workers=1, env={"TRACE_FILE": path}, timeout=900)
    import shutil

    shutil.rmtree(d, ignore_errors=True)
    chk.states += res.distinct
    chk.transitions += res.generated
    rejected = (not res.ok) or ("Accepted" in (res.stdout or "") and "violated" in (res.stdout or "")) or res.depth - 1 < len(events)
    chk.tlc_runs.append({"name": name, **res.summary(), "events": len(events), "matched_prefix": max(0, res.depth - 1)})
    if res.error and "Accepted" not in res.error and "ostcondition" not in res.error:
        raise core.MachineryError(f"trace validation {name}: {res.error[:800]}")
    if expect_reject:
        if not rejected:
            raise core.MachineryError("binding self-test: a corrupted trace was accepted by TraceKernels")
        return None
    if rejected:
        return max(0, res.depth - 1)  # index (0-based) of the first rejected event
    return None


def record_everything(chk, quick, rng):
    shim.CALL_HOOKS.append(hook)
    try:
        shim.set_backend("compile")
        # (1) every operation of the kernel zoo
        for shape in ((5, 6), (5, 5, 6)):
            res = tlc.run_wrapped("MC_Kernels", {"Shape": list(shape), "Impulses": False, "OnlyOps": set()}, KCFG,
                                  raw={"Vals": "-3..3", "PVals": "{-2, -1, 1, 2, 3}"}, mode="simulate", simulate={"num": 1, "depth": 100}, seed=chk.seed, timeout=900)
            chk.add_tlc(f"MC_Kernels{list(shape)} (call tracing)", res)
            for e in res.emits:
                kernels.replay_emit(e, np.float64, "compile", "contig")
        # (2) simulator steps, all structural variants
        cfgs = [
            {"sim": "ns2", "shape": (8, 10), "forcing": True, "free_stream": True, "w": 2},
            {"sim": "ns2", "shape": (8, 8), "forcing": False, "free_stream": False, "w": 0},
            {"sim": "ns2", "shape": (8, 9), "forcing": True, "free_stream": False, "w": 3},
            {"sim": "ns2", "shape": (9, 8), "forcing": False, "free_stream": True, "w": 4},
            {"sim": "ns3", "shape": (6, 7, 6), "forcing": False, "free_stream": True, "filter": "off", "w": 2},
            {"sim": "ns3", "shape": (6, 7, 8), "forcing": True, "free_stream": True, "filter": "multiplicative", "order": 2, "w": 2},
            {"sim": "ns3", "shape": (6, 6, 7), "forcing": False, "free_stream": False, "filter": "convolution", "order": 1, "w": 1, "solver": "fast_diagonalisation"},
            {"sim": "ns3", "shape": (6, 6, 6), "forcing": True, "free_stream": False, "filter": "off", "w": 3},
            {"sim": "pt_scalar", "shape": (7, 9)}, {"sim": "pt_scalar", "shape": (6, 7, 6)}, {"sim": "pt_vector", "shape": (6, 7, 6)},
        ]
        for cfg in cfgs:
            sim = flowstep.get_sim(cfg, np.float64)
            prim = "vorticity_field" if cfg["sim"] in ("ns2", "ns3") else "primary_field"
            getattr(sim, prim)[...] = rng.normal(size=getattr(sim, prim).shape)
            sim.velocity_field[...] = rng.normal(size=sim.velocity_field.shape)
            flowstep.run_step(sim, cfg, [1.0, 2.0, 3.0][: len(cfg["shape"])])
            sim.compute_stable_timestep()
            if cfg["sim"] == "ns3":
                sim.get_vorticity_divergence_l2_norm()
        # (2b) generators that no simulator calls: Brinkmann penalisation, characteristic function, boundary damping, complex product
        g = kernels.spne()
        a2, a3 = rng.normal(size=(6, 7)), rng.normal(size=(5, 6, 7))
        for D, a in ((2, a2), (3, a3)):
            getattr(g, f"gen_brinkmann_penalise_pyst_kernel_{D}d")(real_t=np.float64)(
                penalised_field=a.copy(), field=a.copy(), char_field=np.abs(a), penalty_field=a.copy(), penalty_factor=2.0)
            getattr(g, f"gen_brinkmann_penalise_pyst_kernel_{D}d")(real_t=np.float64, field_type="vector")(
                penalised_vector_field=np.stack([a] * D), penalty_factor=2.0, char_field=np.abs(a), penalty_vector_field=np.stack([a] * D) * 2,
                vector_field=np.stack([a] * D) * 3)
            getattr(g, f"gen_char_func_from_level_set_via_sine_heaviside_pyst_kernel_{D}d")(blend_width=0.5, real_t=np.float64)(
                char_func_field=a.copy(), level_set_field=a.copy())
        g.gen_brinkmann_penalise_vs_fixed_val_pyst_kernel_2d(real_t=np.float64)(penalised_field=a2.copy(), field=a2.copy(), char_field=np.abs(a2),
                                                                                 penalty_factor=2.0, penalty_val=1.0)
        # in-place use (output = input field) is how the experimental Brinkmann forcing penalises the velocity
        b2 = a2.copy()
        g.gen_brinkmann_penalise_pyst_kernel_2d(real_t=np.float64)(penalised_field=b2, field=b2, char_field=np.abs(a2), penalty_field=a2.copy(), penalty_factor=2.0)
        # (3) coupling: the reset kernel of the virtual-boundary forcing
        from sopht.numeric.immersed_boundary_ops import VirtualBoundaryForcing

        for D in (2, 3):
            vb = VirtualBoundaryForcing(1.0, 1.0, D, 0.5, 2, np.float64, enable_eul_grid_forcing_reset=True)
            vel = rng.normal(size=(D,) + (8,) * D)
            frc = np.zeros_like(vel)
            pos = np.full((D, 2), 2.0)
            vb.compute_interaction_forcing(eul_grid_forcing_field=frc, eul_grid_velocity_field=vel, lag_grid_position_field=pos, lag_grid_velocity_field=np.zeros((D, 2)))
    finally:
        shim.CALL_HOOKS.remove(hook)


def static_definitions(chk):
    """kernel-DEFINITION level: every stencil captured from every generator writes only the centre cell of its outputs and reads a
    field it writes only at the centre (so no cell's update reads what another cell's update writes)."""
    bad = []
    for p in shim.KERNELS:
        wn = {n for n, _ in p.writes}
        for n, offs in p.writes:
            if any(o != 0 for o in offs):
                bad.append((p.origin, f"writes {n} at offset {offs}"))
        for n, offs in p.reads:
            if n in wn and any(o != 0 for o in offs):
                bad.append((p.origin, f"reads its own output {n} at offset {offs}"))
    chk.extra["kernel_definitions_checked"] = len(shim.KERNELS)
    chk.traces += len(shim.KERNELS)
    for origin, what in sorted(set(bad)):
        chk.violation({"kind": "kernel_definition", "origin": origin}, f"stencil from {origin} {what}: its result depends on the iteration order")


def thread_independence(chk, quick, rng):
    """every zoo operation on non-integer data: bit-identical outputs for 1, 2, 5, 16 threads."""
    counts = (1, 2, 5, 16)
    for shape in ((9, 11), (6, 7, 9)):
        D = len(shape)
        res = tlc.run_wrapped("MC_Kernels", {"Shape": list(shape), "Impulses": False, "OnlyOps": set()}, KCFG,
                              raw={"Vals": "-3..3", "PVals": "{-2, -1, 1, 2, 3}"}, mode="simulate", simulate={"num": 1, "depth": 100}, seed=chk.seed + 1, timeout=900)
        chk.add_tlc(f"MC_Kernels{list(shape)} (thread sweep)", res)
        for e in res.emits:
            op = e["op"]
            noise = [rng.normal(size=np.array(a).shape) for a in e["pre"]["s"]], [rng.normal(size=np.array(a).shape) for a in e["pre"]["v"]]
            results = []
            for nt in counts:
                s = [np.array(a, dtype=float) + n for a, n in zip(e["pre"]["s"], noise[0])]
                v = [np.array(a, dtype=float) + n for a, n in zip(e["pre"]["v"], noise[1])]
                ps = [np.float64(x) + 0.37 for x in e["ps"]]
                shim.set_backend("compile")
                try:
                    kernels.apply_op(op, s, v, ps, np.float64, D, num_threads=nt)
                except Exception as ex:
                    chk.violation({"kind": "threads_exception", "op": op["name"]}, f"{op['name']} with num_threads={nt}: {type(ex).__name__}: {ex}")
                    break
                results.append(b"".join(a.tobytes() for a in s + v))
            chk.traces += 1
            chk.count((op["name"], D, op["reset"], op["w"], op["n"], op["ty"]))
            if len(set(results)) > 1:
                chk.violation({"kind": "threads", "op": op["name"]}, f"kernel {op} on shape {shape}: results differ between thread counts {counts}")


def coupled_thread_independence(chk, quick, rng):
    """interactions and time steps: bit-identical for every thread count handed to the public classes."""
    import elastica as ea
    import sopht.simulator as sps
    from sopht.numeric.immersed_boundary_ops import VirtualBoundaryForcing

    shim.set_backend("compile")
    counts = (False, 1, 2, 4)
    # (a) two bodies sharing one forcing field, interactors built with num_threads = nt (2-D rigid bodies, 3-D low-level objects)
    h = 0.125
    grid = (24, 28)
    vel = rng.normal(size=(2,) + grid)
    for reset in (False, True):
        results = {}
        for nt in counts:
            forcing = np.zeros_like(vel)
            inters = []
            for cx in (1.2, 1.9):
                body = ea.Cylinder(np.array([cx, 1.4, 0.0]), np.array([0.0, 0.0, 1.0]), np.array([1.0, 0.0, 0.0]), 1.0, 0.3, density=1e3)
                body.velocity_collection[:2, 0] = [0.3, -0.2]
                body.omega_collection[2, 0] = 0.7
                inters.append(sps.RigidBodyFlowInteraction(
                    rigid_body=body, eul_grid_forcing_field=forcing, eul_grid_velocity_field=vel, virtual_boundary_stiffness_coeff=3e2,
                    virtual_boundary_damping_coeff=0.7, dx=h, grid_dim=2, forcing_grid_cls=sps.CircularCylinderForcingGrid, num_forcing_points=16,
                    enable_eul_grid_forcing_reset=reset, num_threads=nt))
            for it in inters:
                it()
                it.time_step(dt=0.25)
            for it in inters:
                it()
            results[nt] = forcing.tobytes() + b"".join(it.lag_grid_forcing_field.tobytes() for it in inters)
        chk.traces += 1
        chk.count(("coupled threads 2d", reset))
        if len(set(results.values())) > 1:
            same = [nt for nt in counts if results[nt] == results[False]]
            chk.violation({"kind": "threads_coupled", "dim": 2}, f"two rigid bodies sharing one forcing field (reset={reset}): results differ between interactor "
                          f"thread counts {counts} (identical to the default only for {same})")
    grid3 = (10, 12, 14)
    vel3 = rng.normal(size=(3,) + grid3)
    other = rng.integers(-2, 3, (3,) + grid3).astype(float)
    for reset in (False, True):
        results = {}
        for nt in counts:
            forcing = other.copy()                                           # another body's forcing is already in the field
            o = VirtualBoundaryForcing(virtual_boundary_stiffness_coeff=4.0, virtual_boundary_damping_coeff=2.0, grid_dim=3, dx=0.5, num_lag_nodes=5,
                                       real_t=np.float64, enable_eul_grid_forcing_reset=reset, num_threads=nt)
            pos = (np.array([[3.2, 4.1, 5.5, 6.3, 9.4], [2.6, 3.3, 4.8, 6.1, 8.2], [2.4, 3.3, 4.1, 5.2, 6.6]]) * 0.5)
            vb = np.arange(15, dtype=float).reshape(3, 5) / 7
            o.compute_interaction_forcing(eul_grid_forcing_field=forcing, eul_grid_velocity_field=vel3, lag_grid_position_field=pos, lag_grid_velocity_field=vb)
            o.time_step(dt=0.5)
            o.compute_interaction_forcing(eul_grid_forcing_field=forcing, eul_grid_velocity_field=vel3, lag_grid_position_field=pos, lag_grid_velocity_field=vb)
            results[nt] = forcing.tobytes() + o.lag_grid_forcing_field.tobytes()
        chk.traces += 1
        chk.count(("coupled threads 3d", reset))
        if len(set(results.values())) > 1:
            chk.violation({"kind": "threads_coupled", "dim": 3}, f"VirtualBoundaryForcing 3-D (reset={reset}) on a field that already holds forcing: results differ between thread counts {counts}")
    # (b) whole time steps of the simulators
    cfgs = [("ns2", dict(grid_size=(12, 14), x_range=1.75, kinematic_viscosity=0.02, with_forcing=True, with_free_stream_flow=True, flow_density=2.0)),
            ("ns2", dict(grid_size=(40, 48), x_range=1.5, kinematic_viscosity=0.02, with_forcing=True, penalty_zone_width=6)),
            ("ns3", dict(grid_size=(8, 9, 10), x_range=1.25, kinematic_viscosity=0.02, with_forcing=True, with_free_stream_flow=True, filter_vorticity=True,
                         penalty_zone_width=3)),
            ("pt", dict(grid_dim=2, grid_size=(9, 11), x_range=1.1, kinematic_viscosity=0.05, field_type="scalar"))]
    if not quick:
        cfgs.append(("ns3fd", dict(grid_size=(8, 9, 10), x_range=1.25, kinematic_viscosity=0.02, poisson_solver_type="fast_diagonalisation")))
    for name, kw in cfgs:
        if "penalty_zone_width" in kw and kw["penalty_zone_width"] > 3:
            pass
        cls = {"ns2": sps.UnboundedNavierStokesFlowSimulator2D, "ns3": sps.UnboundedNavierStokesFlowSimulator3D, "ns3fd": sps.UnboundedNavierStokesFlowSimulator3D,
               "pt": sps.PassiveTransportFlowSimulator}[name]
        D = len(kw["grid_size"])
        shape = tuple(kw["grid_size"])
        om0 = rng.normal(size=(shape if name in ("ns2", "pt") else (3,) + shape))
        m = 3
        if kw.get("penalty_zone_width", 2) > 3:
            m = 1                       # vorticity inside the damping zone: the zone must do some work
        mask = np.zeros(shape)
        mask[tuple(slice(m, -m) for _ in range(D))] = 1
        om0 = om0 * mask
        v0 = rng.normal(size=(D,) + shape)
        f0 = rng.normal(size=(D,) + shape) * mask
        results = {}
        ref_solver = None
        for nt in (1, 2, 4, 16):
            sim = cls(real_t=np.float64, num_threads=nt, **kw)
            # the FFT library plans its transforms per thread count (and per process, by run-time measurement): that choice is probed
            # separately below (fft_thread_probe); here every simulator uses ONE solver object so that only SophT's own per-cell
            # loops run with different thread counts
            if hasattr(sim, "_unbounded_poisson_solver"):
                if ref_solver is None:
                    ref_solver = sim._unbounded_poisson_solver
                sim._unbounded_poisson_solver = ref_solver
            prim = sim.primary_field if name == "pt" else sim.vorticity_field
            prim[...] = om0
            sim.velocity_field[...] = v0
            for step in range(2):
                if kw.get("with_forcing"):
                    sim.eul_grid_forcing_field[...] = f0
                if kw.get("with_free_stream_flow"):
                    sim.time_step(dt=0.01, free_stream_velocity=np.array([0.5, -0.25, 0.125][:D]))
                else:
                    sim.time_step(dt=0.01)
            results[nt] = prim.tobytes() + sim.velocity_field.tobytes()
        chk.traces += 1
        chk.count(("step threads", name))
        if len(set(results.values())) > 1:
            chk.violation({"kind": "threads_step", "sim": name}, f"two time steps of {cls.__name__} {kw}: results differ between num_threads = 1, 2, 4, 16 "
                          "(same Poisson solver object in all runs)")
    fft_thread_probe(chk, rng)


def fft_thread_probe(chk, rng):
    """the FFT-based unbounded Poisson solvers with num_threads = 1, 2, 4, 16 on one right-hand side each."""
    import sopht.numeric.eulerian_grid_ops as spne

    for shape in ((12, 14), (9, 11), (16, 16), (10, 12), (8, 9, 10), (6, 10, 12)):
        rhs = rng.normal(size=shape)
        outs = {}
        for nt in (1, 2, 4, 16):
            if len(shape) == 2:
                sol = spne.UnboundedPoissonSolverPYFFTW2D(grid_size_y=shape[0], grid_size_x=shape[1], x_range=1.0, real_t=np.float64, num_threads=nt)
            else:
                sol = spne.UnboundedPoissonSolverPYFFTW3D(grid_size_z=shape[0], grid_size_y=shape[1], grid_size_x=shape[2], x_range=1.0, real_t=np.float64, num_threads=nt)
            o = np.zeros(shape)
            sol.solve(solution_field=o, rhs_field=rhs.copy())
            outs[nt] = o
        chk.traces += 1
        chk.count(("fft threads", shape))
        rel = max(float(np.abs(o - outs[1]).max() / np.abs(outs[1]).max()) for o in outs.values())
        if rel > 64 * float(np.finfo(np.float64).eps):
            chk.violation({"kind": "threads_fft_large", "dim": len(shape)}, f"unbounded Poisson solve {shape}: results differ by {rel:.3g} (relative) between thread counts")
        elif len({o.tobytes() for o in outs.values()}) > 1:
            differing = [nt for nt, o in outs.items() if o.tobytes() != outs[1].tobytes()]
            chk.violation({"kind": "threads_fft", "dim": len(shape)}, f"unbounded Poisson solve {shape}: num_threads in {differing} differ from num_threads = 1 in the last bits "
                          f"(max relative difference {rel:.3g})")


def run(chk: core.Check):
    shim.install()
    quick = chk.tier == "quick"
    rng = np.random.default_rng(chk.seed)
    # ---- the schedule model ------------------------------------------------------------------------
    safe = [("{-1, 1}", False, False), ("{0}", True, False), ("{-1, 0, 1}", False, True), ("{}", True, True), ("{-2, -1, 0, 1, 2}", False, False)]
    unsafe = [("{-1, 1}", True, False), ("{0, 1}", True, False), ("{-1}", True, True)]
    N = 5 if quick else 6
    for offs, al, sr in safe:
        res = tlc.run_wrapped("Sched", {"N": N, "Aliased": al, "SelfRead": sr}, "SPECIFICATION Spec\nINVARIANT Deterministic\nINVARIANT InputsIntact\nCHECK_DEADLOCK FALSE\n",
                              raw={"ReadOffs": offs, "Vals": "{0, 1}"}, timeout=1500)
        chk.add_tlc(f"Sched safe offs={offs} aliased={al} selfread={sr}", res)
    for offs, al, sr in unsafe:
        res = tlc.run_wrapped("Sched", {"N": N, "Aliased": al, "SelfRead": sr}, "SPECIFICATION Spec\nINVARIANT Deterministic\nCHECK_DEADLOCK FALSE\n",
                              raw={"ReadOffs": offs, "Vals": "{0, 1}"}, timeout=1500)
        chk.add_tlc(f"control Sched unsafe offs={offs} aliased={al}", res, expect_violation="Deterministic")
    # ---- call traces validated by the monitor ------------------------------------------------------
    record_everything(chk, quick, rng)
    coupled_thread_independence(chk, quick, rng)
    events = [dict(e) for e in EVENTS]
    bad_at = validate_trace(chk, events, "TraceKernels all recorded calls")
    chk.traces += sum(e["count"] for e in events)
    for e in events:
        chk.count((e["origin"], json.dumps(e["rel"]), json.dumps(e["wrel"])))
    chk.extra["distinct_call_patterns"] = len(events)
    chk.extra["kernel_calls_traced"] = sum(e["count"] for e in events)
    if bad_at is not None and bad_at < len(events):
        e = events[bad_at]
        chk.violation({"kind": "aliasing", "origin": e["origin"]},
                      f"kernel call from {e['origin']} is outside the schedule-independent class: writes {e['writes']}, reads {e['reads']}, "
                      f"memory relation write x read {e['rel']}, write x write {e['wrel']}", {"event": e})
    for e in events[:2]:
        chk.sample({k: e[k] for k in ("origin", "writes", "reads", "rel", "count")})
    # binding self-test: corrupt one recorded relation -> the monitor must reject
    if events:
        cor = json.loads(json.dumps(events))
        tgt = next((x for x in cor if x["reads"] and not all(r["center"] for r in x["reads"])), cor[0])
        if tgt["rel"] and tgt["rel"][0]:
            for j, r in enumerate(tgt["reads"]):
                if not r["center"]:
                    tgt["rel"][0][j] = "same"
        validate_trace(chk, cor, "binding self-test (corrupted event)", expect_reject=True)
    # ---- bit-identity across thread counts -----------------------------------------------------------
    thread_independence(chk, quick, rng)
    static_definitions(chk)
    from .c07 import serial_spreading

    bad = serial_spreading()
    chk.traces += 1
    if bad:
        chk.violation({"kind": "parallel_spread"}, f"spreading kernels request numba parallel execution: {bad}")
    chk.assumptions += [
        "a kernel call's memory effect is modelled per cell as Load (all reads of the cell's stencil) then Store; inputs that no cell writes "
        "can be read at any time, so one Load per cell loses no interleaving for the safe classes",
        "the captured symbolic assignments determine the read/write offsets; memory relations come from the actual NumPy bindings "
        "(np.shares_memory); the monitor accepts any call sequence",
        "bit-identity of complete time steps across thread counts is argued from the trace (every call is in the schedule-independent "
        "class), not sampled: FFTW plan selection is timing dependent; every non-FFT kernel/wrapper of the zoo is sampled for 1, 2, 5, 16 threads",
        "OpenMP code generation of pystencils 2.0 through the compat shim is exercised, not proved",
    ]
    return ("case = distinct (generator call site, read/write offset pattern, memory relation) validated by the TLC monitor, plus every zoo "
            "operation executed with 1, 2, 5 and 16 threads")
