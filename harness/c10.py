"""C10 -- the virtual-boundary feedback is the documented PI law over any call history.

TLC: spec/Coupling.tla, every interleaving of {evaluate, interact, forcing step(dt), move body,
change flow, flow step} of one or two bodies sharing one forcing field, accumulate and reset
mode, to a bounded depth; the "integrate on evaluate" variant is refuted.  Binding: behaviours
from TLC's simulation mode are replayed action by action into real VirtualBoundaryForcing
objects (markers on cell centres and dyadic data make the whole chain bit-exact) with the state
compared after EVERY action; the high-level interaction classes (rigid body / Cosserat rod) are
driven by seeded random histories with the law evaluated on their own fields."""
from __future__ import annotations

import os

import numpy as np

from . import core, shim, tlc

INV = ("SPECIFICATION Spec\nINVARIANT IntegralLaw\nINVARIANT PILaw\nINVARIANT PIFresh\nINVARIANT Superpose\n"
       "PROPERTY EvalKeepsIntegral\nPROPERTY FrameCond\nPROPERTY FieldLaw\nCHECK_DEADLOCK FALSE\n")
KK, CC = 4, 2


def fp(a):
    return a.tobytes()


class Rig:
    """real objects for one replayed behaviour"""

    def __init__(self, D, nbodies, reset, real_t, rng, N=3):
        from sopht.numeric.immersed_boundary_ops import VirtualBoundaryForcing

        self.D, self.real_t, self.rng, self.N = D, real_t, rng, N
        self.h = 0.5
        self.grid = (8, 12) if D == 2 else (8, 9, 13)      # (.., y, x): non-cubic
        self.vel = np.zeros((D,) + self.grid, dtype=real_t)
        self.forcing = np.zeros((D,) + self.grid, dtype=real_t)
        self.objs = {}
        self.pos = {}
        self.vb = {}
        # parameters the law does not depend on: where the grid's first cell centre sits (None = h/2) and when the forcing clock starts
        self.sfrac = {(2, False): None, (2, True): 0.0, (3, False): -1.75, (3, True): None}[(D, reset)]
        self.t0 = {np.float64: 0.0, np.float32: 3.5}[real_t] if nbodies == 1 else 1.25
        self.construction_issue = None
        for b in range(1, nbodies + 1):
            kw = {} if self.sfrac is None else {"eul_grid_coord_shift": real_t(self.sfrac * self.h)}
            self.objs[b] = VirtualBoundaryForcing(
                virtual_boundary_stiffness_coeff=real_t(KK), virtual_boundary_damping_coeff=real_t(CC), grid_dim=D, dx=real_t(self.h),
                num_lag_nodes=N, real_t=real_t, enable_eul_grid_forcing_reset=reset, start_time=self.t0, **kw)
            if float(self.objs[b].time) != self.t0:
                self.construction_issue = f"VirtualBoundaryForcing(start_time={self.t0}) starts with time = {self.objs[b].time!r}"
            self.place(b)
            self.vb[b] = np.zeros((D, N), dtype=real_t)

    def place(self, b):
        """markers on random cell centres at least two cells inside (overlapping supports between bodies welcome)"""
        ext = [self.grid[self.D - 1 - k] for k in range(self.D)]     # extent per physical axis (x first)
        cells = np.stack([self.rng.integers(2, n - 3, self.N) for n in ext])
        cells[:, 0] = [n - 4 for n in ext]                           # one marker at the far end of every axis
        self.pos[b] = ((cells + (0.5 if self.sfrac is None else self.sfrac)) * self.h).astype(self.real_t)

    def set_flow(self, u):
        self.vel[...] = self.real_t(u)

    def set_body_velocity(self, b, v):
        self.vb[b][...] = self.real_t(v)


_RIGS: dict = {}


def fresh_rig(D, nb, reset, real_t, rng):
    """one set of real objects per configuration, returned to its initial public state before each behaviour"""
    key = (D, nb, reset, real_t)
    if key not in _RIGS:
        _RIGS[key] = Rig(D, nb, reset, real_t, rng)
    rig = _RIGS[key]
    rig.rng = rng
    rig.vel[...] = 0
    rig.forcing[...] = 0
    for b, o in rig.objs.items():
        o.lag_grid_position_mismatch_field[...] = 0
        o.lag_grid_velocity_mismatch_field[...] = 0
        o.lag_grid_forcing_field[...] = 0
        o.lag_grid_flow_velocity_field[...] = 0
        o.time = rig.t0
        rig.place(b)
        rig.vb[b][...] = 0
    return rig


def replay_behaviour(chk, steps, D, reset, real_t, rng):
    nb = len(steps[0]["v"]) if isinstance(steps[0]["v"], list) else len(steps[0]["v"])
    rig = fresh_rig(D, nb, reset, real_t, rng)
    if rig.construction_issue:
        return rig.construction_issue
    exact = real_t == np.float64  # cos(pi/2) rounds to exactly 0 relative to 1 only in double precision
    rel = 0.0 if exact else 16 * float(np.finfo(real_t).eps)
    first = steps[0]
    # initial environment = the environment of the first state (u, v do not change before the first move/flow action)
    def vget(s, b):
        return s["v"][b - 1] if isinstance(s["v"], list) else s["v"][str(b)]

    def get(s, name, b):
        x = s[name]
        return x[b - 1] if isinstance(x, list) else x[str(b)]

    u = first["u"]
    v = {b: vget(first, b) for b in range(1, nb + 1)}
    # undo the first action's effect on the environment if it was an environment action
    rig.set_flow(u)
    for b in v:
        rig.set_body_velocity(b, v[b])
    prev_eul_len = 0
    for si, s in enumerate(steps):
        act, b, dt = s["last"]["act"], s["last"]["b"], s["last"]["dt"]
        vel_fp = fp(rig.vel)
        vb_fp = {k: fp(x) for k, x in rig.vb.items()}
        pos_fp = {k: fp(x) for k, x in rig.pos.items()}
        forcing_before = rig.forcing.copy()
        if act == "flow":
            rig.set_flow(s["u"])
        elif act == "move":
            rig.set_body_velocity(b, vget(s, b))
            rig.place(b)
        elif act == "flowstep":
            rig.forcing[...] = 0  # the flow simulator consumes and zeroes the forcing (C01)
        elif act == "evaluate":
            rig.objs[b].compute_interaction_force_on_lag_grid(
                eul_grid_velocity_field=rig.vel, lag_grid_position_field=rig.pos[b], lag_grid_velocity_field=rig.vb[b])
        elif act == "interact":
            rig.objs[b].compute_interaction_forcing(
                eul_grid_forcing_field=rig.forcing, eul_grid_velocity_field=rig.vel,
                lag_grid_position_field=rig.pos[b], lag_grid_velocity_field=rig.vb[b])
        elif act == "step":
            rig.objs[b].time_step(dt=real_t(dt))
        else:
            raise core.MachineryError(f"unknown action {act}")
        # ---- compare the projected state with the specification's successor state ----------------
        for k, o in rig.objs.items():
            want = {"pm": get(s, "pm", k), "vm": get(s, "vm", k), "F": get(s, "F", k), "clk": get(s, "clk", k)}
            got = {"pm": o.lag_grid_position_mismatch_field, "vm": o.lag_grid_velocity_mismatch_field, "F": o.lag_grid_forcing_field}
            for name, arr in got.items():
                if not np.all(np.abs(arr.astype(float) - want[name]) <= rel * (abs(want[name]) + 8)):
                    return f"step {si} ({act} body {b} dt {dt}): body {k} {name} = {np.unique(arr)} but the specification gives {want[name]}"
            if float(o.time) != rig.t0 + float(want["clk"]):
                return f"step {si} ({act}): forcing clock of body {k} = {o.time} but the specification gives {rig.t0} + {want['clk']}"
        # shared field: sum per component = sum of the spread forces * N markers (partition of unity, dyadic weights)
        tot = rig.forcing.reshape(D, -1).sum(axis=1) * rig.h**D
        want_tot = sum(e[1] for e in s["eul"]) * rig.N
        if not np.all(np.abs(tot.astype(float) - want_tot) <= 8 * rel * (abs(want_tot) + 8 * rig.N)):
            return f"step {si} ({act} body {b}): integral of the shared forcing field = {tot} but the specification gives {want_tot} (events {s['eul']})"
        if act in ("evaluate", "step", "move", "flow") and not np.array_equal(rig.forcing, forcing_before):
            return f"step {si}: action {act} modified the Eulerian forcing field"
        # frame conditions
        if act in ("evaluate", "interact", "step"):
            if fp(rig.vel) != vel_fp:
                return f"step {si}: {act} modified the flow velocity field"
            if any(fp(rig.vb[k]) != vb_fp[k] or fp(rig.pos[k]) != pos_fp[k] for k in rig.vb):
                return f"step {si}: {act} modified the body marker state"
    return None


def highlevel(chk, rng, quick):
    """random histories on the real interaction classes; the law is evaluated on their own fields."""
    import elastica as ea
    import sopht.simulator as sps

    for D in (2, 3):
        for trial in range(3 if quick else 12):
            real_t = np.float64
            h = 0.125
            grid = (24,) * D
            vel = rng.normal(size=(D,) + grid)
            forcing = np.zeros_like(vel)
            k0, c0 = 3.0e2, 0.7
            reset = bool(trial % 2)
            # parameters the law does not depend on: grid origin (None = h/2) and the start of the forcing clock
            sfrac = [None, 0.0, 0.25, 0.5][(trial + D) % 4]
            t_start = [0.0, 1.75][(trial // 2 + D) % 2]
            okw = {"start_time": t_start}
            if sfrac is not None:
                okw["eul_grid_coord_shift"] = sfrac * h
            if D == 2:
                body = ea.Cylinder(np.array([1.5, 1.4, 0.0]), np.array([0.0, 0.0, 1.0]), np.array([1.0, 0.0, 0.0]), 1.0, 0.3, density=1e3)
                inter = sps.RigidBodyFlowInteraction(
                    rigid_body=body, eul_grid_forcing_field=forcing, eul_grid_velocity_field=vel, virtual_boundary_stiffness_coeff=k0,
                    virtual_boundary_damping_coeff=c0, dx=h, grid_dim=2, forcing_grid_cls=sps.CircularCylinderForcingGrid,
                    num_forcing_points=[16, 6, 40][trial % 3], enable_eul_grid_forcing_reset=reset, **okw)   # resolved / too coarse (> 2 dx) / too fine
            else:
                n_el = [6, 3, 20][trial % 3]           # marker spacing resolved / coarser than 2 dx / finer than dx / 2
                body = ea.CosseratRod.straight_rod(n_el, np.array([1.0, 1.2, 1.1]), np.array([1.0, 0.5, 0.25]) / np.linalg.norm([1.0, 0.5, 0.25]),
                                                   np.array([0.0, 1.0, -2.0]) / np.sqrt(5.0), 0.9, 0.05, density=1e3, youngs_modulus=1e6,
                                                   shear_modulus=1e6 / 1.5)
                inter = sps.CosseratRodFlowInteraction(
                    cosserat_rod=body, eul_grid_forcing_field=forcing, eul_grid_velocity_field=vel, virtual_boundary_stiffness_coeff=k0,
                    virtual_boundary_damping_coeff=c0, dx=h, grid_dim=3, forcing_grid_cls=sps.CosseratRodElementCentricForcingGrid,
                    enable_eul_grid_forcing_reset=reset, **okw)
            s = inter.forcing_grid.get_maximum_lagrangian_grid_spacing()
            errs = []
            if not np.isclose(inter.virtual_boundary_stiffness_coeff, k0 * s ** (D - 1), rtol=1e-14) or not np.isclose(
                    inter.virtual_boundary_damping_coeff, c0 * s ** (D - 1), rtol=1e-14):
                errs.append(f"coefficients not scaled by max marker spacing^(D-1): k={inter.virtual_boundary_stiffness_coeff}, c={inter.virtual_boundary_damping_coeff}, s={s}")
            pm_ref = np.zeros_like(inter.lag_grid_position_mismatch_field)
            clock = t_start
            if float(inter.time) != t_start:
                errs.append(f"forcing clock starts at {inter.time!r}, start_time = {t_start}")
            body_fp = lambda: (fp(body.position_collection), fp(body.velocity_collection), fp(body.director_collection), fp(body.omega_collection))  # noqa: E731
            for step in range(12 if quick else 40):
                act = rng.choice(["call", "forces", "step", "move", "flow"])
                vel_fp, bfp, pm_before = fp(vel), body_fp(), inter.lag_grid_position_mismatch_field.copy()
                f_before = forcing.copy()
                if act == "call":
                    inter()
                elif act == "forces":
                    inter.compute_flow_forces_and_torques()
                elif act == "step":
                    dt = float(rng.choice([0.5, 0.125, 0.03125, 0.3]))
                    vm = inter.lag_grid_velocity_mismatch_field.copy()
                    frozen = [a.tobytes() for a in (inter.lag_grid_velocity_mismatch_field, inter.lag_grid_forcing_field, inter.lag_grid_flow_velocity_field,
                                                    inter.forcing_grid.position_field, inter.forcing_grid.velocity_field)]
                    inter.time_step(dt)
                    now = [a.tobytes() for a in (inter.lag_grid_velocity_mismatch_field, inter.lag_grid_forcing_field, inter.lag_grid_flow_velocity_field,
                                                 inter.forcing_grid.position_field, inter.forcing_grid.velocity_field)]
                    if now != frozen:
                        errs.append("time_step(dt) changed the velocity mismatch / marker force / marker kinematics: it must only integrate the "
                                    "mismatch of the last evaluation")
                    pm_ref = pm_ref + dt * vm
                    clock += dt
                elif act == "move":
                    body.velocity_collection[...] = rng.normal(size=body.velocity_collection.shape)
                    if D == 2:
                        body.velocity_collection[2] = 0
                        body.omega_collection[2, 0] = rng.normal() * 3
                    else:
                        body.omega_collection[...] = rng.normal(size=body.omega_collection.shape)
                    body.position_collection[: D] += 0.01 * rng.normal(size=body.position_collection[:D].shape)
                    # the body also ROTATES (directors change): marker lever arms must be recomputed by the next call
                    from .c09 import rodrigues

                    for i in range(body.director_collection.shape[2]):
                        Qd = body.director_collection[:, :, i].copy()
                        ax = np.array([0.0, 0.0, 1.0]) if D == 2 else Qd.T @ body.omega_collection[:, i]
                        body.director_collection[:, :, i] = Qd @ rodrigues(ax, 0.3).T
                    continue
                else:
                    vel[...] = rng.normal(size=vel.shape)
                    continue
                if act in ("call", "forces"):
                    # independent kinematics of the body's material points at the CURRENT marker positions (C09)
                    if D == 2:
                        Xc = body.position_collection[:2, 0:1]
                        wz = body.director_collection[2, 2, 0] * body.omega_collection[2, 0]
                        r = inter.forcing_grid.position_field - Xc
                        v_ref = body.velocity_collection[:2, 0:1] + wz * np.stack([-r[1], r[0]])
                        if np.abs(inter.forcing_grid.velocity_field - v_ref).max() > 1e-12:
                            errs.append("marker velocities used by the interaction are not V + Omega x (x_marker - X) of the CURRENT pose")
                    from . import interp

                    u_ref = interp.reference_interpolation(vel, inter.forcing_grid.position_field, h, 0.5 if sfrac is None else sfrac)
                    if np.abs(inter.lag_grid_flow_velocity_field - u_ref).max() > 1e-11:
                        errs.append(f"flow velocity at the markers differs from the documented interpolation (grid origin {sfrac} h) by "
                                    f"{np.abs(inter.lag_grid_flow_velocity_field - u_ref).max():.3g}")
                    want_vm = inter.lag_grid_flow_velocity_field - inter.forcing_grid.velocity_field
                    want_F = inter.virtual_boundary_stiffness_coeff * inter.lag_grid_position_mismatch_field + inter.virtual_boundary_damping_coeff * want_vm
                    if np.abs(inter.lag_grid_velocity_mismatch_field - want_vm).max() > 1e-14:
                        errs.append("velocity mismatch != interpolated flow velocity - body marker velocity")
                    if np.abs(inter.lag_grid_forcing_field - want_F).max() > 1e-12 * (1 + np.abs(want_F).max()):
                        errs.append("marker force != k s^(D-1) * integral + c s^(D-1) * mismatch")
                    if not np.array_equal(inter.lag_grid_position_mismatch_field, pm_before):
                        errs.append(f"{act} changed the integral")
                    if act == "forces" and not np.array_equal(forcing, f_before):
                        errs.append("body-force evaluation modified the Eulerian forcing field")
                    if act == "call":
                        add = forcing - (0 if reset else f_before)
                        tot = add.reshape(D, -1).sum(axis=1) * h**D
                        want = inter.lag_grid_forcing_field.sum(axis=1)
                        if np.abs(tot - want).max() > 1e-10 * (1 + np.abs(want).max()):
                            errs.append(f"interaction {'overwrote' if reset else 'added'} a field whose integral {tot} is not the total marker force {want}")
                if np.abs(inter.lag_grid_position_mismatch_field - pm_ref).max() > 1e-13 * (1 + np.abs(pm_ref).max()):
                    errs.append("integral != Euler-forward sum of dt_i * mismatch_i")
                if abs(inter.time - clock) > 1e-13:
                    errs.append("forcing clock != sum of dt_i")
                if fp(vel) != vel_fp:
                    errs.append(f"{act} modified the flow velocity")
                if body_fp() != bfp:
                    errs.append(f"{act} modified the body state")
                if errs:
                    break
            chk.traces += 1
            chk.count(("highlevel", D, trial))
            for er in errs[:2]:
                chk.violation({"kind": "pi_highlevel", "dim": D}, f"{type(inter).__name__} D={D} reset={reset}: {er}")
            if inter.eul_grid_velocity_field.flags.writeable:
                chk.violation({"kind": "pi_highlevel", "dim": D}, "interaction holds a writable view of the flow velocity")


def small_dt_large_clock(chk):
    """the integral advances by dt * mismatch with the dt that was PASSED, however large the forcing clock already is and whatever the
    scalar type of dt (a clock of 4096 has a single-precision spacing of 4.9e-4: the step must not be derived from the clock)."""
    from sopht.numeric.immersed_boundary_ops import VirtualBoundaryForcing

    for D in (2, 3):
        for real_t in (np.float32, np.float64):
            for t0 in (0.0, 4096.0):
                o = VirtualBoundaryForcing(virtual_boundary_stiffness_coeff=real_t(KK), virtual_boundary_damping_coeff=real_t(CC), grid_dim=D, dx=real_t(0.5),
                                           num_lag_nodes=3, real_t=real_t, start_time=t0)
                grid = (8, 12) if D == 2 else (8, 9, 13)
                vel = np.full((D,) + grid, 1.5, dtype=real_t)
                pos = (np.array([[2, 4, 6], [3, 3, 4], [2, 3, 5]][:D]) + 0.5).astype(real_t) * real_t(0.5)
                vb = np.full((D, 3), -0.5, dtype=real_t)
                o.compute_interaction_force_on_lag_grid(eul_grid_velocity_field=vel, lag_grid_position_field=pos, lag_grid_velocity_field=vb)
                vm = o.lag_grid_velocity_mismatch_field.astype(np.float64).copy()
                dts = [real_t(3 * 2.0**-12), real_t(5 * 2.0**-13), real_t(2.0**-16)]
                for dt in dts:
                    o.time_step(dt=dt)
                want = sum(float(dt) for dt in dts) * vm
                chk.traces += 1
                chk.count(("small dt", D, real_t.__name__, t0))
                eps = float(np.finfo(real_t).eps)
                if np.abs(o.lag_grid_position_mismatch_field.astype(np.float64) - want).max() > 8 * eps * np.abs(want).max():
                    chk.violation({"kind": "pi_small_dt", "dim": D}, f"VirtualBoundaryForcing D={D} {real_t.__name__} start_time={t0}: after steps {[float(x) for x in dts]} the integral is "
                                  f"{np.unique(o.lag_grid_position_mismatch_field)} but sum dt_i * mismatch = {np.unique(want)}")


def apalache_induction(chk):
    """unbounded histories / unbounded integers: IndInv is inductive (Apalache, SMT)."""
    import shutil
    import subprocess
    import tempfile

    d = tempfile.mkdtemp(prefix="apa_")
    try:
        shutil.copy(os.path.join(tlc.SPEC_DIR, "CouplingInd.tla"), d)

        def apa(args):
            p = subprocess.run(["apalache-mc", "check", *args, f"--out-dir={d}/out", "CouplingInd.tla"], cwd=d, capture_output=True, text=True, timeout=600)
            return "EXITCODE: OK" in p.stdout, ("EXITCODE: ERROR (12)" in p.stdout or "Found a violation" in p.stdout or "violat" in p.stdout), p.stdout[-600:]

        runs = [("init implies invariant", ["--init=Init", "--inv=IndInv", "--length=0"], True),
                ("inductive step", ["--init=IndInit", "--inv=IndInv", "--length=1"], True),
                ("control: integrate-on-evaluate is not inductive", ["--init=IndInit", "--next=NextBad", "--inv=IndInv", "--length=1"], False)]
        obligations = 0
        for name, args, want_ok in runs:
            ok, viol, tail = apa(args)
            chk.tlc_runs.append({"name": "apalache " + name, "ok": ok, "violation": viol})
            if want_ok and not ok:
                if viol:
                    chk.violation({"kind": "model", "run": "apalache " + name}, f"Apalache refutes the inductive invariant of the coupling law ({name})", {"tail": tail})
                else:
                    raise core.MachineryError(f"apalache {name}: {tail}")
            if not want_ok and ok:
                raise core.MachineryError("apalache negative control accepted: the inductive check is vacuous")
            obligations += 1
        chk.extra["apalache_obligations_discharged"] = obligations
    finally:
        shutil.rmtree(d, ignore_errors=True)


def run(chk: core.Check):
    shim.install()
    quick = chk.tier == "quick"
    rng = np.random.default_rng(chk.seed)
    apalache_induction(chk)
    raw = {"Vals": "{-1, 0, 2}", "Dts": "{1, 2}"}
    base = {"Bodies": {1, 2}, "K": KK, "C": CC, "ResetMode": False, "MaxSteps": 5 if quick else 6, "IntegrateOnEvaluate": False,
            "KeepTrail": False}
    for reset in (False, True):
        res = tlc.run_wrapped("Coupling", dict(base, ResetMode=reset), INV, raw=raw, timeout=3000)
        chk.add_tlc(f"Coupling 2 bodies reset={reset} depth {base['MaxSteps']}", res)
    res = tlc.run_wrapped("Coupling", dict(base, Bodies={1}, MaxSteps=7 if quick else 9), INV, raw=raw, timeout=3000)
    chk.add_tlc("Coupling 1 body deep", res)
    res = tlc.run_wrapped("Coupling", dict(base, IntegrateOnEvaluate=True, MaxSteps=4), INV, raw=raw, timeout=600)
    chk.add_tlc("control integrate on evaluate", res, expect_violation="IntegralLaw")
    # ---- replay ----------------------------------------------------------------------------------
    nbeh = 0
    for reset in (False, True):
        for nb in (1, 2):
            res = tlc.run_wrapped("Coupling", dict(base, Bodies=set(range(1, nb + 1)), ResetMode=reset, MaxSteps=12, KeepTrail=True),
                                  "SPECIFICATION Spec\nCONSTRAINT EmitTrail\nCHECK_DEADLOCK FALSE\n", raw=raw, mode="simulate",
                                  simulate={"num": 6 if quick else 40, "depth": 13}, seed=chk.seed + nb, timeout=900)
            chk.add_tlc(f"emit Coupling bodies={nb} reset={reset}", res)
            # every emitted trail is a complete behaviour of the specification (candidate successors included)
            behs = [e["trail"] for e in tlc.dedupe(res.emits, lambda e: e["trail"])]
            if quick:
                behs = behs[:: max(1, len(behs) // 40)]
            for beh in behs:
                for D in (2, 3):
                    for real_t in (np.float64, np.float32):
                        try:
                            err = replay_behaviour(chk, beh, D, reset, real_t, rng)
                        except core.MachineryError:
                            raise
                        except Exception as ex:
                            err = f"exception {type(ex).__name__}: {ex}"
                        chk.traces += 1
                        chk.count((tlc.canon([s["last"] for s in beh]), D, real_t.__name__, reset))
                        if err:
                            chk.violation({"kind": "pi_replay", "dim": D, "reset": reset},
                                          f"VirtualBoundaryForcing D={D} {real_t.__name__} reset={reset}, history {[ (s['last']['act'], s['last']['b'], s['last']['dt']) for s in beh]}: {err}",
                                          {"behaviour": beh, "error": err})
                nbeh += 1
                if len(chk.samples) < 3:
                    chk.sample([(s["last"]["act"], s["last"]["b"], s["last"]["dt"]) for s in beh])
    chk.extra["behaviours_replayed"] = nbeh
    highlevel(chk, rng, quick)
    small_dt_large_clock(chk)
    chk.assumptions += [
        "the law is identical and independent per marker and component: the model carries one representative scalar per body; the "
        "replay checks every marker/component of the real arrays against it",
        "replay uses markers on cell centres, a uniform flow velocity, integer stiffness/damping/dt: every operation of the chain is exact "
        "in floating point, so states are compared with equality after every action",
        "histories are exhaustive to depth 5-6 (two bodies) / 7-9 (one body) in TLC, seeded random to depth 12 in the replay; "
        "unbounded histories and unbounded integers: the same laws are an inductive invariant of CouplingInd.tla, discharged by Apalache "
        "(init, step, and a negative control that must fail)",
    ]
    return ("case = one behaviour (sequence of public calls on one or two bodies) replayed per dimension/precision/mode with the state "
            "compared after every call; plus random histories on the rigid-body and Cosserat-rod interaction classes")
