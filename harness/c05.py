"""C05 -- finite-difference operators are consistent with their continuous counterparts.

TLC checks spec/MC_Consistency.tla exhaustively (operators of Stencils.tla vs exact derivatives of
monomials from Continuum.tla, all admissible cells, both ENO3 branch combinations, with negative
controls); every case is replayed into the real generators (exact-rational interpreter and
compiled code) where the code's output must equal the CONTINUOUS derivative TLC emitted."""
from __future__ import annotations

from fractions import Fraction

import numpy as np

from . import core, kernels, shim, tlc

CFG_CHECK = "SPECIFICATION Spec\nINVARIANT Consistent\n"
CFG_EMIT = "SPECIFICATION Spec\nINVARIANT Consistent\nCONSTRAINT EmitState\n"


def xcoord(shape, k):
    """X_k = 2 i - 1 along physical axis k (1-based), broadcast to the grid."""
    D = len(shape)
    ax = D - k
    idx = np.arange(1, shape[ax] + 1) * 2 - 1
    sh = [1] * D
    sh[ax] = shape[ax]
    return np.broadcast_to(idx.reshape(sh), shape).astype(np.int64)


def mono(e, shape):
    out = np.ones(shape, dtype=np.int64)
    for k, n in enumerate(e, start=1):
        if k <= len(shape):
            out = out * xcoord(shape, k) ** n
    return out


def mk(a, backend, real_t):
    if backend == "exact":
        return shim.frac_array(a)
    return kernels.operand(a, real_t)


def filt1_kernels(real_t):
    """The three captured 1-D filter stencils of gen_laplacian_filter_kernel_3d, by physical axis."""
    n0 = len(shim.KERNELS)
    b = np.zeros((4, 4, 4), dtype=real_t)
    kernels.gen("gen_laplacian_filter_kernel_3d", real_t, filter_order=1, filter_flux_buffer=b, field_buffer=b.copy(), _nocache=True)
    out = {}
    for p in shim.KERNELS[n0:]:
        if p.reach == 1 and "laplacian_filter" in p.origin:
            axes = {i for _, offs in p.reads for i, o in enumerate(offs) if o != 0}
            if len(axes) == 1:
                out[3 - axes.pop()] = p  # array axis -> physical axis
    return out


def run_case(e, backend, real_t):
    """-> (error text | None)."""
    shim.set_backend(backend)
    cs, shape = e["cs"], tuple(e["shape"])
    D = len(shape)
    op = cs["op"]
    sfx = f"_{D}d"
    q = Fraction(1, 4) if backend == "exact" else real_t(0.25)
    h = Fraction(1, 2) if backend == "exact" else real_t(0.5)
    G = lambda name, **kw: kernels.gen(name, real_t if backend != "exact" else np.float64, **kw)  # noqa: E731
    A = lambda arr: mk(arr, backend, real_t)  # noqa: E731
    exps = [cs["a"], cs["b"], cs["c"]][:D]
    VF = np.stack([mono(x, shape) for x in exps])
    factor = 4
    if op == "lap":
        out = A(np.full(shape, 55))
        G("gen_diffusion_flux_pyst_kernel" + sfx)(diffusion_flux=out, field=A(mono(cs["a"], shape)), prefactor=q)
        outs = [out]
    elif op == "filt1":
        ks = filt1_kernels(real_t if backend != "exact" else np.float64)
        if sorted(ks) != [1, 2, 3]:
            return f"filter generator does not provide one 1-D stencil per axis (found axes {sorted(ks)})"
        out = A(np.zeros(shape))
        ks[cs["j"]].compile()(filter_flux=out, field=A(mono(cs["a"], shape)))
        outs = [out]
    elif op == "outplane_curl":
        out = A(np.full((2,) + shape, 55))
        G("gen_outplane_field_curl_pyst_kernel_2d")(curl=out, field=A(mono(cs["a"], shape)), prefactor=q)
        outs = [out[0], out[1]]
    elif op == "inplane_curl":
        out = A(np.full(shape, 55))
        G("gen_inplane_field_curl_pyst_kernel_2d")(curl=out, field=A(VF), prefactor=q)
        outs = [out]
    elif op == "curl3":
        out = A(np.full((3,) + shape, 55))
        G("gen_curl_pyst_kernel_3d")(curl=out, field=A(VF), prefactor=q)
        outs = list(out)
    elif op == "div3":
        out = A(np.full(shape, 55))
        G("gen_divergence_pyst_kernel_3d")(divergence=out, field=A(VF), inv_dx=h)
        outs = [out]
    elif op in ("update_vort", "update_vort_pen"):
        factor = 1
        three = Fraction(3) if backend == "exact" else real_t(3)
        om = A(np.full(shape if D == 2 else (3,) + shape, 7))
        if op == "update_vort":
            G("gen_update_vorticity_from_velocity_forcing_pyst_kernel" + sfx)(
                vorticity_field=om, velocity_forcing_field=A(VF), prefactor=three
            )
        else:
            G("gen_update_vorticity_from_penalised_velocity_pyst_kernel" + sfx)(
                vorticity_field=om, penalised_velocity_field=A(2 * VF), velocity_field=A(VF), prefactor=three
            )
        outs = [om] if D == 2 else list(om)
    elif op == "stretch":
        om = np.stack([mono(cs["a"], shape)] * 3)
        u = np.zeros((3,) + shape, dtype=np.int64)
        u[cs["j"] - 1] = mono(cs["b"], shape)
        out = A(np.full((3,) + shape, 55))
        G("gen_vorticity_stretching_flux_pyst_kernel_3d")(
            vorticity_stretching_flux_field=out, vorticity_field=A(om), velocity_field=A(u), prefactor=q
        )
        outs = list(out)
    elif op == "eno3":
        factor = 12
        vel = np.zeros((D,) + shape, dtype=np.int64)
        vel[cs["j"] - 1] = np.array(e["u"])
        out = A(np.zeros(shape))
        G("gen_advection_flux_conservative_eno3_pyst_kernel" + sfx)(
            advection_flux=out, field=A(mono(cs["a"], shape)), velocity=A(vel), inv_dx=h
        )
        outs = [out]
    else:
        raise KeyError(op)
    mask = np.array(e["mask"]).astype(bool)
    for k, (o, ex) in enumerate(zip(outs, e["expected"])):
        ex = np.array(ex)
        if backend == "exact":
            of = o.reshape(-1)
            for i in np.flatnonzero(mask.reshape(-1)):
                if of[i] * factor != int(ex.reshape(-1)[i]):
                    return f"component {k + 1} cell {np.unravel_index(i, shape)}: code*{factor}={of[i] * factor} continuous={ex.reshape(-1)[i]}"
        else:
            c = o.astype(np.float64) * factor
            # rounding allowance from the OPERAND magnitudes (the result may cancel to zero)
            tol = 0.0 if op != "eno3" else 64 * float(np.finfo(real_t).eps) * 12 * float(
                np.abs(mono(cs["a"], shape)).max() * np.abs(np.array(e["u"])).max())
            d = np.abs(c - ex)[mask]
            if d.size and d.max() > tol:
                i = np.argmax(np.abs(c - ex) * mask)
                ci = np.unravel_index(i, shape)
                return f"component {k + 1} cell {ci}: code*{factor}={c[ci]} continuous={ex[ci]} (tol {tol:.2g})"
    return None


def low_degree(p):
    """B-trace (a): the captured stencil is a (piecewise) polynomial of degree <= 2 in its samples."""
    import pystencils as ps
    import sympy as sp

    def deg(e):
        if isinstance(e, ps.Field.Access):
            return 1
        if isinstance(e, sp.Piecewise):
            return max(deg(v) for v, _ in e.args)
        if e.is_Add:
            return max(deg(a) for a in e.args)
        if e.is_Mul:
            return sum(deg(a) for a in e.args)
        if e.is_Pow:
            b_, n_ = e.args
            d = deg(b_)
            if d == 0:
                return 0
            if n_.is_Integer and int(n_) >= 0:
                return d * int(n_)
            return 99  # quotient by a field sample: rational, not polynomial
        if not e.args:
            return 0
        # other heads (sin, Abs, casts): non-polynomial only if they contain samples
        return 99 if any(deg(a) > 0 for a in e.args) else 0

    return max(deg(a.rhs) for a in p.assignments)


def run(chk: core.Check):
    shim.install()
    tier, seed = chk.tier, chk.seed
    if tier == "quick":
        plans = [((6, 7), True), ((5, 5, 5), False)]
        variants = [("exact", np.float64), ("compile", np.float64)]
        stride3 = 3
    else:
        plans = [((6, 7), True), ((7, 6), True), ((5, 5, 5), True), ((5, 6, 5), False)]
        variants = [("exact", np.float64), ("compile", np.float64), ("compile", np.float32)]
        stride3 = 1
    for shape, full in plans:
        res = tlc.run_wrapped("MC_Consistency", {"Shape": list(shape), "Full": full}, CFG_EMIT, workers=1, timeout=1500)
        chk.add_tlc(f"MC_Consistency{list(shape)} full={full}", res)
        seen = set()
        cases = []
        for e in res.emits:
            key = tlc.canon(e["cs"])
            if key not in seen:
                seen.add(key)
                cases.append(e)
        if len(shape) == 3 and stride3 > 1:
            # TLC checked all of them; replay every third vector-operator case, all scalar/ENO3 ones
            cases = [e for i, e in enumerate(cases) if e["cs"]["op"] in ("lap", "filt1", "stretch") or i % stride3 == 0]
        ops_all = {e["cs"]["op"] for e in res.emits}
        ops_replayed = {e["cs"]["op"] for e in cases}
        if ops_all != ops_replayed:
            raise core.MachineryError(f"operators {sorted(ops_all - ops_replayed)} were dropped by the replay sub-sampling")
        for e in cases:
            for backend, real_t in variants:
                if real_t == np.float32 and e["cs"]["op"] == "eno3":
                    continue
                try:
                    err = run_case(e, backend, real_t)
                except Exception as ex:
                    err = f"exception {type(ex).__name__}: {ex}"
                chk.traces += 1
                nontrivial = any(any(x) for x in (e["cs"]["a"], e["cs"]["b"], e["cs"]["c"]))
                chk.count((repr(e["cs"]), shape, backend, real_t.__name__) if nontrivial else None)
                if err:
                    chk.violation(
                        {"op": e["cs"]["op"], "dim": len(shape)},
                        f"operator {e['cs']['op']} on monomials a={e['cs']['a']} b={e['cs']['b']} c={e['cs']['c']} j={e['cs']['j']} "
                        f"s={e['cs']['s']} off={e['cs']['off']} shape={shape} backend={backend}/{real_t.__name__}: {err}",
                        {"case": e["cs"], "shape": shape, "error": err},
                    )
            if len(chk.samples) < 3 and e["cs"]["op"] in ("eno3", "curl3", "lap") and sum(e["cs"]["a"]) == 2:
                chk.sample({"case": e["cs"], "shape": e["shape"], "expected_continuous": e["expected"][0][2] if len(shape) == 2 else e["expected"][0][2][2]})
    # negative controls / vacuity
    for inv in ("NoMixed", "EnoTooStrong"):
        res = tlc.run_wrapped("MC_Consistency", {"Shape": [6, 7], "Full": False}, f"SPECIFICATION Spec\nINVARIANT {inv}\n", timeout=600)
        chk.add_tlc(f"control {inv}", res, expect_violation=inv)
    # B-trace (a): every captured stencil is a piecewise polynomial of degree <= 2
    bad = []
    for p in shim.KERNELS:
        d = low_degree(p)
        if d > 2:
            bad.append((p.origin, d))
    chk.extra["captured_stencils_checked"] = len(shim.KERNELS)
    for origin, d in bad:
        chk.violation({"op": "degree", "origin": origin}, f"captured stencil {origin} has degree {d} > 2 in its samples: the finite basis argument does not apply")
    # coordinate convention of the simulators (x along the last axis, first cell centre at h/2)
    check_position_convention(chk)
    # the assembled filters on quadratics: a corollary of the 1-D filter Laplacians L_a = -(h^2/4) d_a^2 being exact there
    check_filters_on_quadratics(chk)
    chk.assumptions += [
        "exactness on monomials of degree <= 2 (<= 3 for same-branch ENO3) is checked exhaustively; second-order accuracy for "
        "smooth fields is its Taylor corollary and is not separately decided",
        "replay uses spacing h = 2 (X units); other spacings follow from homogeneity of the stencils in h, and integer prefactors "
        "are exercised by C13",
        "1-D filter Laplacians are reached through the stencils captured from gen_laplacian_filter_kernel_3d",
        "compat shim, exact-rational interpreter and TLC are trusted",
    ]
    return (
        "one case = (operator, monomial exponents per component, ENO3 velocity sign/shift) evaluated at every admissible cell; "
        "replayed per backend/precision; non-trivial = at least one non-constant monomial"
    )


def check_filters_on_quadratics(chk):
    """Deep-interior cells of a quadratic q: L_a q is constant, L_a L_b q = 0.  Hence the documented compositions give
    convolution order 1: q + (h^2/4)(q_xx + q_yy + q_zz); convolution order >= 2 and multiplicative (any order): q unchanged."""
    shim.set_backend("compile")
    rng = np.random.default_rng(chk.seed + 5)
    shape = (13, 12, 14)
    z, y, x = np.meshgrid(*[np.arange(n, dtype=float) for n in shape], indexing="ij")
    for real_t in (np.float64, np.float32):
        for ftype in ("multiplicative", "convolution"):
            for order in (1, 2, 3):
                for field_type in ("scalar", "vector"):
                    fb = np.full(shape, 3.0, dtype=real_t)
                    bb = np.full(shape, -2.0, dtype=real_t)
                    filt = kernels.gen("gen_laplacian_filter_kernel_3d", real_t, filter_order=order, filter_flux_buffer=fb, field_buffer=bb,
                                       filter_type=ftype, field_type=field_type, _nocache=True)
                    ncomp = 3 if field_type == "vector" else 1
                    co = rng.integers(-3, 4, (ncomp, 10)).astype(float)
                    q = [c[0] + c[1] * x + c[2] * y + c[3] * z + c[4] * x * x + c[5] * y * y + c[6] * z * z + c[7] * x * y + c[8] * y * z + c[9] * x * z for c in co]
                    lap = [2 * (c[4] + c[5] + c[6]) for c in co]
                    f = np.array(q, dtype=real_t) if ncomp == 3 else np.array(q[0], dtype=real_t)
                    f0 = f.astype(float).copy()
                    fb[...] = rng.integers(-9, 10, shape)            # scratch is dirty when the filter is called
                    bb[...] = rng.integers(-9, 10, shape)
                    filt(**{("vector_field" if ncomp == 3 else "scalar_field"): f})
                    m = order + 2          # each 1-D pass carries the influence of the zeroed ring one cell inwards
                    core_ = (slice(m, -m),) * 3
                    chk.traces += 1
                    chk.count(("filter-quadratic", real_t.__name__, ftype, order, field_type))
                    for k in range(ncomp):
                        got = (f[k] if ncomp == 3 else f).astype(float)[core_]
                        ref = (f0[k] if ncomp == 3 else f0)[core_] + (0.25 * lap[k] if (ftype == "convolution" and order == 1) else 0.0)
                        tol = 64 * float(np.finfo(real_t).eps) * (np.abs(ref).max() + 1)
                        if np.abs(got - ref).max() > tol:
                            chk.violation({"op": "filter_quadratic", "type": ftype, "order": order},
                                          f"{ftype} filter of order {order} ({field_type}, {real_t.__name__}) on the quadratic with coefficients {co[k].tolist()}: "
                                          f"deep-interior cells deviate by {np.abs(got - ref).max():.3g} from the value implied by exact 1-D filter Laplacians")
                            break


def check_position_convention(chk):
    import sopht.simulator as sps

    for shape, xr in (((6, 8), 4.0), ((4, 6, 8), 2.0)):
        D = len(shape)
        try:
            if D == 2:
                sim = sps.PassiveTransportFlowSimulator(kinematic_viscosity=0.1, grid_dim=2, grid_size=shape, x_range=xr, real_t=np.float64)
            else:
                sim = sps.PassiveTransportFlowSimulator(kinematic_viscosity=0.1, grid_dim=3, grid_size=shape, x_range=xr, real_t=np.float64)
        except Exception as ex:
            raise core.MachineryError(f"cannot construct simulator: {ex}")
        h = xr / shape[-1]
        ok = abs(float(sim.dx) - h) < 1e-15
        for k in range(1, D + 1):
            want = (xcoord(shape, k) * h / 2).astype(float)
            if not np.allclose(sim.position_field[k - 1], want, rtol=0, atol=1e-13):
                ok = False
        chk.traces += 1
        chk.count(("position", shape))
        if not ok:
            chk.violation({"op": "position_field", "dim": D}, f"position field of a {D}-D simulator violates the convention x_k = (i - 1/2) h along array axis D-k")
