"""Shared machinery of C08 / C09: TLC cases of spec/Bodies.tla loaded into real PyElastica bodies
and real SophT forcing grids."""
from __future__ import annotations

from fractions import Fraction

import numpy as np

from . import core, tlc

QUATS = "{<<1,0,0,0>>, <<1,2,3,4>>, <<2,-1,0,3>>, <<0,1,1,-1>>}"
QUATS_T = "{<<1,0,0,0>>, <<1,2,3,4>>, <<2,-1,0,3>>, <<0,1,1,-1>>, <<3,1,-2,2>>, <<1,-1,1,5>>}"
ALL_KINDS = {"rigid3", "rigid2", "rod_elem", "rod_nodal", "rod_edge", "rod_surf"}


def fr(x):
    return Fraction(x[0], x[1])


def vec(v):
    return np.array([float(fr(c)) for c in v])


def mat(m):
    return np.array([[float(fr(c)) for c in row] for row in m])


def emit_cases(chk, kinds, quick, name):
    res = tlc.run_wrapped("Bodies", {"Kinds": set(kinds)}, "SPECIFICATION Spec\nINVARIANT RigidLaws\nINVARIANT RodLaws\nCONSTRAINT EmitState\nCHECK_DEADLOCK FALSE\n",
                          raw={"Quats": QUATS if quick else QUATS_T}, workers="auto", timeout=3000)
    chk.add_tlc(name, res)
    return tlc.dedupe(res.emits)


def model_check(chk, quick, name="Bodies laws"):
    res = tlc.run_wrapped("Bodies", {"Kinds": ALL_KINDS}, "SPECIFICATION Spec\nINVARIANT RigidLaws\nINVARIANT RodLaws\nCHECK_DEADLOCK FALSE\n",
                          raw={"Quats": QUATS if quick else QUATS_T}, timeout=3000)
    chk.add_tlc(name, res)


# ------------------------------------------------------------------------------------------------
def make_rigid(kind3, e):
    """(the rigid grids are likewise built in another pose: see the end of this function)"""
    """real body + grid for a rigid case; kind3 in {cylinder, sphere, plane} (3-D) or 'cyl2d'."""
    import elastica as ea
    import sopht.simulator as sps

    Q, X, V, W = mat(e["Q"]), vec(e["X"]), vec(e["V"]), vec(e["W"])
    arms = np.array([vec(a) for a in e["arms"]]).T  # (3, 3 markers)
    if kind3 == "cyl2d":
        body = ea.Cylinder(np.array([0.0, 0.0, 0.0]), np.array([0.0, 0.0, 1.0]), np.array([1.0, 0.0, 0.0]), 1.0, 0.4, density=1e3)
        grid_cls, kw, D = sps.CircularCylinderForcingGrid, {"num_forcing_points": 7}, 2
    elif kind3 == "cylinder":
        body = ea.Cylinder(np.array([0.0, 0.0, 0.0]), np.array([0.0, 0.0, 1.0]), np.array([1.0, 0.0, 0.0]), 1.2, 0.3, density=1e3)
        grid_cls, kw, D = sps.OpenEndCircularCylinderForcingGrid, {"num_forcing_points_along_length": 3}, 3
    elif kind3 == "sphere":
        body = ea.Sphere(center=np.zeros(3), base_radius=0.4, density=1e3)
        grid_cls, kw, D = sps.SphereForcingGrid, {"num_forcing_points_along_equator": 6}, 3
    else:
        body = sps.RectangularPlane(origin=np.zeros(3), plane_normal=np.array([0.0, 0.0, 1.0]), plane_tangent_along_length=np.array([1.0, 0.0, 0.0]),
                                    plane_length=1.0, plane_breadth=0.6)
        grid_cls, kw, D = sps.RectangularPlaneForcingGrid, {"num_forcing_points_along_length": 4}, 3
    body.position_collection[:, 0] = X if kind3 != "cyl2d" else np.array([X[0], X[1], 0.5])
    body.director_collection[:, :, 0] = Q
    body.velocity_collection[:, 0] = V if kind3 != "cyl2d" else np.array([V[0], V[1], 0.0])
    body.omega_collection[:, 0] = W if kind3 != "cyl2d" else np.array([0.0, 0.0, W[2]])
    # build the grid while the body is in ANOTHER pose / state, then load the case's state
    keep = {k: getattr(body, k).copy() for k in ("position_collection", "velocity_collection", "director_collection", "omega_collection")}
    body.position_collection[...] = keep["position_collection"] + 0.7
    body.velocity_collection[...] = -2.0 * keep["velocity_collection"] + 1.0
    body.omega_collection[...] = keep["omega_collection"] + 1.5
    body.director_collection[:, :, 0] = np.eye(3) if not np.allclose(Q, np.eye(3)) else np.array([[0.0, 1.0, 0.0], [-1.0, 0.0, 0.0], [0.0, 0.0, 1.0]])
    grid = grid_cls(grid_dim=D, rigid_body=body, **kw)
    for k, v in keep.items():
        getattr(body, k)[...] = v
    if kind3 == "sphere":
        grid.global_frame_relative_position_field[:, :3] = Q.T @ arms
    else:
        grid.local_frame_relative_position_field[:, :3] = arms[:D]
    return body, grid, D


def make_rod(e):
    import elastica as ea

    nodes = np.array([vec(v) for v in e["nodes"]]).T
    rod = ea.CosseratRod.straight_rod(3, np.zeros(3), np.array([1.0, 0.0, 0.0]), np.array([0.0, 1.0, 0.0]), 1.0, 0.05, density=1e3,
                                      youngs_modulus=1e6, shear_modulus=1e6 / 1.5)
    rod.position_collection[...] = nodes
    rod.velocity_collection[...] = np.array([vec(v) for v in e["nodev"]]).T
    rod.mass[...] = np.array(e["mass"], dtype=float)
    if "Q" in e:
        for i in range(3):
            rod.director_collection[:, :, i] = mat(e["Q"][i])
        rod.omega_collection[...] = np.array([vec(w) for w in e["W"]]).T
        rod.radius[...] = np.array([float(fr(r)) for r in e["radius"]])
        rod.tangents[...] = np.array([vec(t) for t in e["tang"]]).T
    seg = nodes[:, 1:] - nodes[:, :-1]
    rod.lengths[...] = np.linalg.norm(seg, axis=0)
    return rod


def make_rod_grid(kind, rod, e, dim2=False):
    """dim2: the 2-D variant (grid_dim=2) of the nodal / element-centric grids.
    The grid is built while the rod is in ANOTHER state (shrunk radii with the same ratios, shifted nodes, other directors and
    velocities); the case's state is loaded afterwards.  Anything a grid caches at construction instead of reading from the
    rod at refresh time is therefore stale when the fields are computed."""
    keep = {k: getattr(rod, k).copy() for k in ("position_collection", "velocity_collection", "director_collection", "omega_collection", "radius", "tangents", "lengths")}
    rod.radius[...] = 0.8 * keep["radius"]
    rod.position_collection[...] = keep["position_collection"] * 1.1 + 0.3
    rod.velocity_collection[...] = -keep["velocity_collection"] + 1.0
    rod.omega_collection[...] = 0.5 * keep["omega_collection"] - 1.0
    rod.director_collection[...] = keep["director_collection"][[1, 2, 0]]      # another proper rotation (cyclic row permutation)
    grid, D = _make_rod_grid(kind, rod, e, dim2)
    for k, v in keep.items():
        getattr(rod, k)[...] = v
    return grid, D


def _make_rod_grid(kind, rod, e, dim2=False):
    import sopht.simulator as sps

    if kind == "rod_elem":
        return sps.CosseratRodElementCentricForcingGrid(grid_dim=2 if dim2 else 3, cosserat_rod=rod), (2 if dim2 else 3)
    if kind == "rod_nodal":
        return sps.CosseratRodNodalForcingGrid(grid_dim=2 if dim2 else 3, cosserat_rod=rod), (2 if dim2 else 3)
    if kind == "rod_edge":
        return sps.CosseratRodEdgeForcingGrid(grid_dim=2, cosserat_rod=rod), 2
    return sps.CosseratRodSurfaceForcingGrid(grid_dim=3, cosserat_rod=rod, surface_grid_density_for_largest_element=4,
                                             with_cap=bool(e["cs"]["opt"][1])), 3


def moment(points, forces, about):
    return np.cross((points - about[:, None]).T, forces.T).sum(axis=0)
