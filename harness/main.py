"""CLI: ./check <Cxx> [--tier quick|thorough] [--replay file]"""
from __future__ import annotations

import argparse
import importlib
import json
import os
import sys
import tempfile
import traceback


def main():
    ap = argparse.ArgumentParser()
    ap.add_argument("prop")
    ap.add_argument("--tier", default=os.environ.get("VERIF_TIER", "quick"))
    ap.add_argument("--replay", default=None)
    a = ap.parse_args()
    tier = a.tier if a.tier in ("quick", "thorough") else "quick"
    seed = int(os.environ.get("VERIF_SEED", "0") or 0)
    from . import core

    core.quiet()
    # scratch cwd outside /repo and /verif (IO tests, h5 files, numba caches must not litter)
    scratch = tempfile.mkdtemp(prefix=f"verif_{a.prop}_")
    os.chdir(scratch)
    rc = 2
    try:
        if a.replay:
            with open(a.replay) as fh:
                print(json.dumps(json.load(fh), indent=1)[:20000])
            return 0
        mod = importlib.import_module(f"harness.{a.prop.lower()}")
        chk = core.Check(a.prop, tier, seed)
        rule = mod.run(chk)
        rc = chk.finish(rule)
    except core.MachineryError as ex:
        print(f"MACHINERY-ERROR [{a.prop}]: {ex}", file=sys.stderr)
        rc = 2
    except Exception:
        traceback.print_exc()
        print(f"MACHINERY-ERROR [{a.prop}]: unexpected exception", file=sys.stderr)
        rc = 2
    finally:
        os.chdir("/")
        import shutil

        shutil.rmtree(scratch, ignore_errors=True)
    return rc


if __name__ == "__main__":
    sys.exit(main())
