"""C17 -- saved fields reload bit-exactly; mismatching files are rejected; on-disk layout.

TLC: spec/IO.tla over all registry scenarios (dimension, Eulerian scalar/vector, up to two
Lagrangian grids with marker counts incl. N = dim, scalar/vector fields, one mismatch); both
wrong design variants are refuted.  Replay: every scenario through the real IO classes in a
scratch directory (files inspected with h5py: dataset paths, shapes, raw bytes; loaded arrays
compared by raw bytes incl. NaN payloads, infinities, denormals; exceptions compared with the
model's error state)."""
from __future__ import annotations

import os

import numpy as np

from . import core, shim, tlc

INV = "SPECIFICATION Spec\nINVARIANT RoundTrip\nINVARIANT Rejects\nINVARIANT Layout\nINVARIANT ScalarLayout\n"
_counter = [0]


def weird(shape, dtype, rng):
    """arbitrary bit patterns: NaNs with payloads, infinities, denormals, signed zeros, ordinary values."""
    itype = np.uint32 if dtype == np.float32 else np.uint64
    bits = rng.integers(0, np.iinfo(itype).max, size=shape, dtype=itype, endpoint=True)
    a = bits.view(dtype).copy()
    flat = a.reshape(-1)
    specials = [np.nan, -np.nan, np.inf, -np.inf, np.finfo(dtype).tiny / 8, -0.0, 0.0, np.finfo(dtype).max]
    for i, s in enumerate(specials):
        if i < flat.size:
            flat[(i * 7) % flat.size] = s
    return a


_MIS_COUNT = [0]


def build(cs, dtype, rng, grid_size, origin, dx, skip=()):
    """-> (io, arrays dict name -> array).  skip: names not to register."""
    import sopht.utils as spu

    dim = cs["dim"]
    io = spu.IO(dim=dim, real_dtype=dtype)
    arrs = {}
    if cs["ef"]:
        io.define_eulerian_grid(origin=np.array(origin, dtype=float), dx=np.array(dx, dtype=float), grid_size=np.array(grid_size))
        ef = {}
        if "S" in cs["ef"] and "es" not in skip:
            ef["es"] = weird(tuple(grid_size), dtype, rng)
        if "V" in cs["ef"]:
            ef["ev"] = weird((dim,) + tuple(grid_size), dtype, rng)
        io.add_as_eulerian_fields_for_io(**ef)
        arrs.update(ef)
    for g, gc in enumerate(cs["grids"], start=1):
        name = "ga" if g == 1 else "gb"
        if name in skip:
            continue
        n = gc["n"]
        grid = weird((dim, n), dtype, rng)
        lf = {}
        if name + "_fields" not in skip:
            if "S" in gc["fs"]:
                lf[f"ls_{g}"] = weird((n,), dtype, rng)
            if "V" in gc["fs"]:
                lf[f"lv_{g}"] = weird((dim, n), dtype, rng)
        io.add_as_lagrangian_fields_for_io(lagrangian_grid=grid, lagrangian_grid_name=name, **lf)
        arrs[name] = grid
        arrs.update(lf)
    return io, arrs


def spec_path_to_h5(p):
    p = list(p)
    if p[0] == "Eulerian":
        return "Eulerian/Scalar/es" if p[1] == "Scalar" else f"Eulerian/Vector/ev_{p[3]}"
    g = 1 if p[1] == "ga" else 2
    if len(p) == 3:
        return f"Lagrangian/{p[1]}/Grid"
    return f"Lagrangian/{p[1]}/{p[2]}/{'ls' if p[3] == 'S' else 'lv'}_{g}"


def replay(chk, e, dtype, rng):
    import h5py

    cs = e["cs"]
    dim = cs["dim"]
    grid_size = [3, 4] if dim == 2 else [2, 3, 4]
    origin, dx = [0.125] * dim, [0.25] * dim
    _counter[0] += 1
    fn = f"io_{_counter[0]}.h5"
    errs = []
    src_io, src = build(cs, dtype, rng, grid_size, origin, dx)
    before = {k: v.tobytes() for k, v in src.items()}
    t = float(rng.random()) * 7 + 0.1
    # the file the loader will see: for "missing_*" scenarios it is written from a reduced registry
    mis = cs["mis"] if e["effective"] else "none"   # a mismatch that removes nothing leaves the scenario unchanged
    skip = {"missing_efield": ("es",), "missing_grid": ("ga",), "missing_lfield": ("ga_fields",)}.get(mis, ())
    src_io.save(h5_file_name=fn, time=t)
    if any(v.tobytes() != before[k] for k, v in src.items()):
        errs.append("saving modified a source array")
    # ---- on-disk layout of the full file ---------------------------------------------------------
    with h5py.File(fn, "r") as f:
        keys = []
        f.visit(keys.append)
        dsets = {k for k in keys if isinstance(f[k], h5py.Dataset) and not k.endswith("Connection")}
        want = {spec_path_to_h5(p) for p in e["paths"]}
        if dsets != want:
            errs.append(f"datasets in the file {sorted(dsets ^ want)} differ from the specification's layout")
        else:
            for sh in e["shapes"]:
                k = spec_path_to_h5(sh["path"])
                shape = tuple(sh["shape"])
                if sh["path"][0] == "Eulerian":
                    shape = (1,) + tuple(grid_size)
                if f[k].shape != shape:
                    errs.append(f"dataset {k} has shape {f[k].shape}, specification {shape}")
            # raw bytes
            for name, a in src.items():
                if name == "es":
                    got = f["Eulerian/Scalar/es"][0, ...]
                    ok = got.tobytes() == a.tobytes()
                elif name == "ev":
                    ok = all(f[f"Eulerian/Vector/ev_{k}"][0, ...].tobytes() == a[k].tobytes() for k in range(dim))
                elif name in ("ga", "gb"):
                    ok = f[f"Lagrangian/{name}/Grid"][...].tobytes() == np.ascontiguousarray(a.T).tobytes()
                elif name.startswith("ls"):
                    g = "ga" if name.endswith("1") else "gb"
                    ok = f"Lagrangian/{g}/Scalar/{name}" in dsets and f[f"Lagrangian/{g}/Scalar/{name}"][...].tobytes() == a.tobytes()
                else:
                    g = "ga" if name.endswith("1") else "gb"
                    k = f"Lagrangian/{g}/Vector/{name}"
                    ok = k in dsets and f[k][...].tobytes() == np.ascontiguousarray(np.moveaxis(a, 0, -1)).tobytes()
                if not ok:
                    errs.append(f"bytes of {name} on disk are not the (marker-major / per-component) image of the source")
            if float(np.float64(f.attrs["time"])) != t:      # (NumPy 2 compares a float32 with a Python float in float32)
                errs.append("time stamp not stored exactly")
    # ---- the file the loader sees -------------------------------------------------------------------
    if skip:
        red_io, _ = build(cs, dtype, np.random.default_rng(1), grid_size, origin, dx, skip=skip)
        fn2 = fn.replace(".h5", "_reduced.h5")
        red_io.save(h5_file_name=fn2, time=t)
        load_from = fn2
    else:
        load_from = fn
    lo, ldx, lgs = list(origin), list(dx), list(grid_size)
    # ONE component differs, and which one rotates over the scenarios (a loader that compares a single component, or any() instead of
    # all(), must not get away with it); sizes of the mismatch: 1 / 0.02 (origin), x2 / x1.01 (spacing), +1 (one extent)
    _MIS_COUNT[0] += 1
    ax = _MIS_COUNT[0] % dim
    if mis == "origin":
        lo[ax] += (1.0, 0.02)[(_MIS_COUNT[0] // dim) % 2]
    if mis == "dx":
        ldx[ax] *= (2, 1.01)[(_MIS_COUNT[0] // dim) % 2]
    dst_io, dst = build(cs, dtype, np.random.default_rng(2), grid_size, lo, ldx)
    if mis == "grid_size" and cs["ef"]:
        gs2 = np.array(grid_size)
        gs2[ax] += 1
        dst_io.eulerian_grid_size = gs2  # registry believes in another grid size
    raised = None
    try:
        t2 = dst_io.load(h5_file_name=load_from)
    except Exception as ex:
        raised = ex
    if e["load_error"]:
        if raised is None:
            errs.append(f"load returned normally although the file mismatches the registry ({mis})")
    else:
        if raised is not None:
            errs.append(f"load raised {type(raised).__name__}: {raised} on a matching file")
        else:
            if float(np.float64(t2)) != t:
                errs.append(f"time stamp {t2!r} != {t!r}")
            for name, a in src.items():
                if dst[name].tobytes() != a.tobytes():
                    errs.append(f"{name} not restored bit-exactly")
    for f_ in os.listdir("."):
        if f_.startswith(fn[:-3]):
            os.remove(f_)
    return errs


def convenience_classes(chk, rng):
    import elastica as ea
    import sopht.simulator as sps
    import sopht.utils as spu

    for dim in (2, 3):
        for dtype in (np.float32, np.float64):
            shape = (4, 5) if dim == 2 else (3, 4, 5)
            sim = sps.PassiveTransportFlowSimulator(kinematic_viscosity=0.1, grid_dim=dim, grid_size=shape, x_range=2.5, real_t=dtype)
            fields = {"primary": weird(shape, dtype, rng), "velocity": weird((dim,) + shape, dtype, rng)}
            io = spu.EulerianFieldIO(position_field=sim.position_field, eulerian_fields_dict=fields)
            # the registry holds the live arrays: contents written AFTER registration are what gets saved
            for v in fields.values():
                v[...] = weird(v.shape, dtype, rng)
            io.save("conv.h5", time=1.5)
            tt = 0.1 + float(rng.random())             # a time that single precision cannot represent
            io.save("conv_t.h5", time=tt)
            if float(np.float64(spu.EulerianFieldIO(position_field=sim.position_field, eulerian_fields_dict={k: np.zeros_like(v) for k, v in fields.items()}).load("conv_t.h5"))) != tt:
                chk.violation({"kind": "io_convenience", "cls": "EulerianFieldIO"}, f"EulerianFieldIO ({dtype.__name__}) does not restore the time stamp {tt!r} exactly")
            fresh = {k: np.zeros_like(v) for k, v in fields.items()}
            io2 = spu.EulerianFieldIO(position_field=sim.position_field, eulerian_fields_dict=fresh)
            t = io2.load("conv.h5")
            chk.traces += 1
            chk.count(("EulerianFieldIO", dim, dtype.__name__))
            if float(np.float64(t)) != 1.5 or any(fresh[k].tobytes() != fields[k].tobytes() for k in fields):
                chk.violation({"kind": "io_convenience", "cls": "EulerianFieldIO"}, f"EulerianFieldIO {dim}-D {dtype.__name__} round trip not bit exact")
            # a registry of another grid must be rejected
            sim2 = sps.PassiveTransportFlowSimulator(kinematic_viscosity=0.1, grid_dim=dim, grid_size=shape, x_range=5.0, real_t=dtype)
            io3 = spu.EulerianFieldIO(position_field=sim2.position_field, eulerian_fields_dict={k: np.zeros_like(v) for k, v in fields.items()})
            try:
                io3.load("conv.h5")
                chk.violation({"kind": "io_convenience", "cls": "EulerianFieldIO"}, "EulerianFieldIO loaded a file with different spacing without complaint")
            except Exception:
                pass
            # a domain whose lower corner differs per axis: the stored origin follows the ARRAY axis order (.., y, x), so that the generic
            # IO class (origin given in that order) reads the file, and rejects the permuted origin
            import h5py

            off = np.array([0.5, -2.0, 3.0][:dim], dtype=dtype)                  # per PHYSICAL axis x, y(, z)
            pf = (sim.position_field + off.reshape((dim,) + (1,) * dim)).astype(dtype)
            io4 = spu.EulerianFieldIO(position_field=pf, eulerian_fields_dict=fields)
            io4.save("conv_shift.h5", time=0.75)
            want_origin = np.array([float(pf[dim - 1 - a].min()) for a in range(dim)])       # (z,) y, x
            dxs = float(sim.dx)
            with h5py.File("conv_shift.h5", "r") as f:
                got_origin = np.array(f["Eulerian"]["Parameters"].attrs["origin"], dtype=float)
                got_dx = np.array(f["Eulerian"]["Parameters"].attrs["dx"], dtype=float)
                got_gs = np.array(f["Eulerian"]["Parameters"].attrs["grid_size"])
            chk.traces += 1
            chk.count(("EulerianFieldIO-origin", dim, dtype.__name__))
            tol = 8 * float(np.finfo(dtype).eps) * 4
            if got_origin.shape != (dim,) or np.abs(got_origin - want_origin).max() > tol or np.abs(got_dx - dxs).max() > tol or tuple(got_gs) != shape:
                chk.violation({"kind": "io_convenience", "cls": "EulerianFieldIO", "what": "origin"},
                              f"EulerianFieldIO {dim}-D {dtype.__name__}: stored origin/dx/grid_size = {got_origin.tolist()}/{got_dx.tolist()}/{got_gs.tolist()} for a domain with lower "
                              f"corner (array axis order) {want_origin.tolist()}, spacing {dxs}, grid {shape}")
            for label, org, must_load in (("matching", want_origin, True), ("permuted", want_origin[::-1], False)):
                gio = spu.IO(dim=dim, real_dtype=dtype)
                gio.define_eulerian_grid(origin=np.array(org, dtype=float), dx=np.full(dim, dxs), grid_size=np.array(shape))
                tgt = {k: np.zeros_like(v) for k, v in fields.items()}
                gio.add_as_eulerian_fields_for_io(**tgt)
                try:
                    gio.load("conv_shift.h5")
                    loaded = True
                except Exception:
                    loaded = False
                if loaded != must_load:
                    chk.violation({"kind": "io_convenience", "cls": "EulerianFieldIO", "what": "origin"},
                                  f"EulerianFieldIO {dim}-D {dtype.__name__}: a generic IO registry with the {label} origin {list(org)} "
                                  f"{'loaded' if loaded else 'was refused'} the file written for lower corner {want_origin.tolist()}")
                elif loaded and any(tgt[k].tobytes() != fields[k].tobytes() for k in fields):
                    chk.violation({"kind": "io_convenience", "cls": "EulerianFieldIO", "what": "origin"}, "cross-loaded fields are not bit exact")
        for n in (2, 3, 5):
            rod = ea.CosseratRod.straight_rod(n, np.array([0.1, 0.2, 0.3]), np.array([0.0, 0.6, 0.8]), np.array([1.0, 0.0, 0.0]), 1.0, 0.05,
                                              density=1e3, youngs_modulus=1e6, shear_modulus=1e6 / 1.5)
            rod.radius[...] = rng.random(n) + 0.01
            # the IO object's declared precision does not change what is stored: PyElastica arrays are float64 whatever the flow precision
            rio = spu.CosseratRodIO(cosserat_rod=rod, dim=dim, **({"real_dtype": np.float32} if n == 3 else {}))
            # the rod moves and changes radius after the IO object was built: save must write the CURRENT element positions
            rod.position_collection[...] += rng.normal(size=rod.position_collection.shape)
            rod.radius[...] = rng.random(n) + 0.01
            rio.save("rod.h5", time=2.25)
            want_pos = 0.5 * (rod.position_collection[:dim, 1:] + rod.position_collection[:dim, :-1])
            if not np.array_equal(rio.rod_element_position, want_pos):
                chk.violation({"kind": "io_convenience", "cls": "CosseratRodIO"}, "CosseratRodIO.save did not refresh the element positions of the moved rod")
            saved_pos = rio.rod_element_position.copy()
            saved_rad = rod.radius.copy()
            rio.rod_element_position[...] = 0
            rod.radius[...] = -1
            t = rio.load("rod.h5")
            import h5py

            with h5py.File("rod.h5", "r") as f:
                gshape = f["Lagrangian/rod/Grid"].shape
            chk.traces += 1
            chk.count(("CosseratRodIO", dim, n))
            ok = float(np.float64(t)) == 2.25 and rio.rod_element_position.tobytes() == saved_pos.tobytes() and rod.radius.tobytes() == saved_rad.tobytes() and gshape == (n, dim)
            if not ok:
                chk.violation({"kind": "io_convenience", "cls": "CosseratRodIO"}, f"CosseratRodIO dim={dim} n_elems={n}: round trip / layout wrong (grid dataset {gshape})")


def run(chk: core.Check):
    shim.install()
    quick = chk.tier == "quick"
    rng = np.random.default_rng(chk.seed)
    res = tlc.run_wrapped("IO", {"ClassifyOrder": "vector_first", "LoadGuard": "grids"}, INV + "CONSTRAINT EmitState\n", workers="auto", timeout=1200)
    chk.add_tlc("IO intended", res)
    r2 = tlc.run_wrapped("IO", {"ClassifyOrder": "scalar_first", "LoadGuard": "grids"}, INV, timeout=600)
    chk.add_tlc("control scalar-first classification", r2, expect_violation="Layout")
    r3 = tlc.run_wrapped("IO", {"ClassifyOrder": "vector_first", "LoadGuard": "fields"}, "SPECIFICATION Spec\nINVARIANT Rejects\n", timeout=600)
    chk.add_tlc("control load guarded by fields (rejection)", r3, expect_violation="Rejects")
    r4 = tlc.run_wrapped("IO", {"ClassifyOrder": "vector_first", "LoadGuard": "fields"}, "SPECIFICATION Spec\nINVARIANT RoundTrip\n", timeout=600)
    chk.add_tlc("control load guarded by fields (round trip)", r4, expect_violation="RoundTrip")
    cases = tlc.dedupe(res.emits)
    stride = 5 if quick else 1
    replayed_kinds = set()
    for i, e in enumerate(cases):
        if e["cs"]["mis"] == "nothing_registered_l":
            continue
        interesting = any(g["n"] == e["cs"]["dim"] for g in e["cs"]["grids"]) or any(not g["fs"] for g in e["cs"]["grids"])
        if i % stride != chk.seed % stride and not (interesting and i % 2 == 0):
            continue
        replayed_kinds.add((e["cs"]["mis"] if e["effective"] else "none", bool(e["load_error"])))
        for dtype in (np.float64, np.float32):
            try:
                errs = replay(chk, e, dtype, rng)
            except core.MachineryError:
                raise
            except Exception as ex:
                errs = [f"exception {type(ex).__name__}: {ex}"]
            chk.traces += 1
            chk.count((tlc.canon(e["cs"]), dtype.__name__))
            for er in errs[:2]:
                n_eq_dim = any(g["n"] == e["cs"]["dim"] and "V" in g["fs"] for g in e["cs"]["grids"])
                no_fields = bool(e["cs"]["grids"]) and not any(g["fs"] for g in e["cs"]["grids"])
                chk.violation({"kind": "io", "n_equals_dim_vector": n_eq_dim, "grids_without_fields": no_fields, "what": er.split(" ")[0]},
                              f"IO scenario {e['cs']} ({dtype.__name__}): {er}", {"case": e, "error": er})
        if len(chk.samples) < 3 and interesting:
            chk.sample(e)
    need = {(m, True) for m in ("missing_efield", "missing_grid", "missing_lfield", "origin", "dx", "grid_size")} | {("none", False)}
    if not need <= replayed_kinds:
        raise core.MachineryError(f"scenario kinds {sorted(need - replayed_kinds)} were not replayed (sub-sampling too coarse)")
    convenience_classes(chk, rng)
    chk.assumptions += [
        "array contents are arbitrary bit patterns (NaN payloads, infinities, denormals, signed zeros) compared by raw bytes",
        "field names are unique across grids (the registry is keyed by name: 'similar to numpy savez')",
        "mismatches are beyond the loader's allclose tolerance and affect ONE component, rotating over the axes (origin + 1 or + 0.02, spacing x 2 or x 1.01, one extent + 1)",
        "h5py / HDF5 are exercised, not proved; files live in a scratch directory outside /repo and /verif",
    ]
    return "case = registry scenario (dimension, Eulerian fields, Lagrangian grids with marker counts incl. N = dim, fields, one mismatch) x precision"
