"""C06 -- interpolation kernels: partition of unity, support, moments.

TLC: spec/Interp.tla (sub-cell marker lattice, nondeterministic floor on cell centres, tensor
weights from an integer 1-D table that satisfies the documented 1-D laws exactly) -- the
D-dimensional laws hold for all lattice positions and both floor outcomes.  Binding: the real
communicator kernels are driven over the same lattice (plus one ulp either side and random
positions); the returned index must be one the specification allows, the code's weights are
compared with the documented closed forms and the laws are evaluated on the code's own weights."""
from __future__ import annotations

import itertools

import numpy as np

from . import core, interp, shim, tlc

INV6 = "SPECIFICATION Spec\nINVARIANT PartitionOfUnity\nINVARIANT NonNegative\nINVARIANT Affine\nINVARIANT Support\nCHECK_DEADLOCK FALSE\n"


def model(chk, D, M, kind, S=1 << 8, mode="accumulate", inv=INV6, expect=None, offsets=None, name=None):
    offs = offsets or ("{<<0,0>>, <<0,1>>}" if D == 2 else "{<<0,1,1>>}")
    c = {"D": D, "M": M, "S": S, "Tab": interp.table(kind, M, S), "FirstMoment": kind == "peskin", "NGrid": 7 if D == 2 else 6,
         "SpreadMode": mode, "CuLo": 1 if D == 2 else 2, "CuHi": 4 if D == 2 else 3}
    res = tlc.run_wrapped("Interp", c, inv, raw={"Offsets2": offs}, timeout=2400)
    chk.add_tlc(name or f"Interp D={D} M={M} {kind}", res, expect_violation=expect)
    return res


# coordinate of the centre of cell 0 in units of h, tied to the spacing so that the quick tier sees a grid origin other than h/2
SFRAC = {0.25: 0.5, 2.0: 0.25, 2.0**-6: 0.0, 4.0: -3.25, 0.02: 0.5, 0.3: 0.0}
# half-width of the support window handed to the kernels: both delta functions require 2 (the generators raise ValueError for any
# other width -- covered by X01), so this is a constant; the plumbing stays parametric
WIDTH = {0.25: 2, 2.0: 2, 2.0**-6: 2, 4.0: 2, 0.02: 2, 0.3: 2}


def drive(chk, D, kind, real_t, h, cells, residues, M, grid, bump):
    """markers at lattice positions (i + r/M) h + sfrac h (cell centres at i h + sfrac h), optionally bumped by ulps."""
    sfrac = SFRAC[h]
    W = WIDTH[h]
    slots = tuple(range(-W + 1, W + 1))
    N = len(cells)
    pos = np.empty((D, N), dtype=real_t)
    for n, (i, r) in enumerate(zip(cells, residues)):
        for k in range(D):
            frac = r[k] / M if r[k] is not None else float(np.random.default_rng(hash((i, k, n)) % 2**32).random())
            x = real_t((i[k] + frac) * h + sfrac * h)
            if bump:
                x = np.nextafter(x, real_t(np.inf if bump > 0 else -np.inf))
            pos[k, n] = x
    c = interp.comm(D, h, N, real_t, kind, 1, sfrac, W)
    idx, w = interp.support_and_weights(c, pos, D, real_t, W)
    eps = float(np.finfo(real_t).eps)
    phi = interp.PHI[kind]
    errs = []
    for n in range(N):
        for k in range(D):
            allowed = {cells[n][k]}
            if residues[n][k] is None:      # random position strictly inside the cell: the index is the cell's
                if int(idx[k, n]) != cells[n][k]:
                    errs.append(f"marker {n} axis {k}: nearest index {idx[k, n]} != {cells[n][k]} for position {pos[k, n]!r}")
                continue
            if residues[n][k] == 0 or bump:
                allowed.add(cells[n][k] - 1 if (residues[n][k] == 0) else cells[n][k])
            if int(idx[k, n]) not in allowed:
                errs.append(f"marker {n} axis {k}: nearest index {idx[k, n]} not in {sorted(allowed)} for position {pos[k, n]!r}")
                continue
        if errs:
            break
        # closed-form tensor weights for the index the code chose
        wn = w[..., n].astype(float) * h**D
        want = np.ones((2 * W,) * D)
        mom = [0.0] * D
        cellc = []
        for k in range(D):
            ax = D - 1 - k  # array axis of physical axis k in the window
            d = np.array([(int(idx[k, n]) + j) + sfrac - float(pos[k, n]) / h for j in slots])
            v = np.array([phi(x) for x in d])
            sh = [1] * D
            sh[ax] = 2 * W
            want = want * v.reshape(sh)
            cellc.append((d.reshape(sh), ax))
        tol = 32 * eps
        if np.abs(wn - want).max() > tol:
            errs.append(f"marker {n}: weights differ from the documented {kind} kernel by {np.abs(wn - want).max():.3g}")
        if abs(wn.sum() - 1) > 8 * eps * D:
            errs.append(f"marker {n}: sum of weights * h^D = {wn.sum()!r}")
        if wn.min() < -eps:
            errs.append(f"marker {n}: negative weight {wn.min()}")
        if kind == "peskin":
            for k, (d, ax) in enumerate(cellc):
                m1 = float((wn * d).sum())
                if abs(m1) > 16 * eps:
                    errs.append(f"marker {n}: first moment along axis {k} = {m1}")
    # interpolation of a constant and of the coordinate field through the real kernel (non-cubic grid)
    shape = grid if isinstance(grid, tuple) else (grid,) * D
    const = np.full(shape, 3.0, dtype=real_t)
    out = np.zeros(N, dtype=real_t)
    c.eulerian_to_lagrangian_grid_interpolation_kernel(lag_grid_field=out, eul_grid_field=const, interp_weights=w, nearest_eul_grid_index_to_lag_grid=idx)
    if np.abs(out.astype(float) - 3.0).max() > 24 * eps * D:
        errs.append(f"constant field 3 interpolates to {out}")
    if kind == "peskin":
        for k in range(D):
            ax = D - 1 - k
            coord = np.zeros(shape, dtype=real_t)
            sh = [1] * D
            sh[ax] = shape[ax]
            coord[...] = ((np.arange(shape[ax]) + sfrac) * h).astype(real_t).reshape(sh)
            c.eulerian_to_lagrangian_grid_interpolation_kernel(lag_grid_field=out, eul_grid_field=coord, interp_weights=w, nearest_eul_grid_index_to_lag_grid=idx)
            if np.abs(out.astype(float) - pos[k].astype(float)).max() > 32 * eps * max(shape) * h:
                errs.append(f"coordinate field along axis {k} interpolates to {out} at markers {pos[k]}")
    return errs


def run(chk: core.Check):
    shim.install()
    quick = chk.tier == "quick"
    rng = np.random.default_rng(chk.seed)
    for kind in ("cosine", "peskin"):
        model(chk, 2, 4, kind)
        if kind == "peskin" or not quick:
            model(chk, 3, 2, kind)
        if not quick:
            model(chk, 2, 8, kind, offsets="{<<0,0>>}")
    # negative control: a table whose rows do not sum to S must be rejected by the ASSUME
    bad = interp.table("cosine", 4, 1 << 8)
    bad[1][0] += 1
    res = tlc.run_wrapped("Interp", {"D": 2, "M": 4, "S": 1 << 8, "Tab": bad, "FirstMoment": False, "NGrid": 7, "SpreadMode": "accumulate", "CuLo": 1, "CuHi": 4},
                          INV6, raw={"Offsets2": "{<<0,0>>}"}, timeout=300)
    chk.tlc_runs.append({"name": "control broken table", **res.summary()})
    if res.ok or "Assumption" not in (res.error or ""):
        raise core.MachineryError("TLC accepted a 1-D table that violates the partition of unity (ASSUME TableLaws not effective)")
    # ---- the real kernels over the lattice ----------------------------------------------------
    Ms = [8] if quick else [8, 32]
    for D in (2, 3):
        for kind in ("cosine", "peskin"):
            for real_t in (np.float64, np.float32):
                for h in ((0.25, 2.0, 0.02) if quick else (0.25, 2.0**-6, 2.0, 4.0, 0.02, 0.3)):   # dyadic and non-dyadic spacings
                    for M in Ms:
                        grid = (9, 13) if D == 2 else (8, 10, 14)        # array order (.., y, x): non-cubic
                        ext = [grid[D - 1 - k] for k in range(D)]        # extent per physical axis
                        allres = list(itertools.product(range(M), repeat=D))
                        if D == 3 or M > 8:
                            sel = rng.choice(len(allres), size=min(len(allres), 60 if quick else 400), replace=False)
                            allres = [allres[i] for i in sel] + [(0,) * D, (M // 2,) * D, (0,) + (M - 1,) * (D - 1)]
                            # exactly one axis on a cell centre, for every axis (the r == 1 / r == 0 branch boundaries per factor)
                            for a_ in range(D):
                                for other in (3 % M, M - 1):
                                    allres.append(tuple(0 if b_ == a_ else other for b_ in range(D)))
                        nrand = 4 if quick else 40
                        for bump in (0, 1, -1):
                            # batches of markers (each batch size is a separately compiled numba kernel:
                            # quick uses 4, thorough 1, 3 and 5)
                            sizes = [4] if quick else [1, 3, 5]
                            res_list = allres + ([(None,) * D] * (nrand * sizes[0]) if bump == 0 else [])   # + random positions
                            i0 = 0
                            bi = 0
                            while i0 < len(res_list):
                                nb = sizes[bi % len(sizes)]
                                bi += 1
                                batch = res_list[i0 : i0 + nb]
                                if len(batch) < nb:
                                    batch = batch + res_list[: nb - len(batch)]
                                mg = WIDTH[h]                            # the window must fit for either admissible nearest index
                                cells = [tuple(int(rng.integers(mg, n - mg - 1)) for n in ext) for _ in batch]
                                cells[0] = tuple(n - mg - 2 for n in ext)   # one marker at the far end of every axis
                                try:
                                    errs = drive(chk, D, kind, real_t, h, cells, batch, M, grid, bump)
                                except Exception as ex:
                                    errs = [f"exception {type(ex).__name__}: {ex}"]
                                chk.traces += 1
                                for r_ in batch:
                                    chk.count((D, kind, real_t.__name__, h, M, r_, bump))
                                for er in errs[:2]:
                                    chk.violation({"kind": "interp", "kernel": kind, "dim": D},
                                                  f"{D}-D {kind} kernel {real_t.__name__} h={h} residues={batch} bump={bump}: {er}")
                                i0 += nb
                chk.sample({"D": D, "kernel": kind, "lattice_M": Ms, "example_position": "(i + r/M) h + h/2, r in 0..M-1, +-1 ulp"}, limit=4)
    chk.assumptions += [
        "1-D tables for the model are quantised from the documented closed forms with exact complements (cosine) / exact use of the "
        "Peskin even-odd and first-moment identities; TLC's ASSUME rejects tables that break the 1-D laws (negative control)",
        "the nearest index may be i or i-1 for markers on a cell centre or within one ulp of it (documented rounding); any other "
        "index is a violation",
        "laws on the code's own weights at 8-32 eps; markers at least two cells inside the domain",
        "numba kernels are exercised, not proved",
    ]
    return ("case = marker lattice position (residues per axis, M = 8/32) x +-1 ulp x kernel x precision x spacing x dimension, "
            "in batches of 1..5 markers at random admissible cells")
