"""C19 -- stabilising operators never amplify and keep admissible states fixed.

TLC: spec/MC_Stabilisers.tla (Brinkmann over exact rationals; boundary damping operationally on
symbolic values; filters on rational-cosine Fourier modes with arbitrary stale buffers) and
spec/CharFunc.tla (table of the documented smooth Heaviside).  Every case is replayed into the
real kernels; the property's inequalities are additionally evaluated on the code's own outputs."""
from __future__ import annotations

import math
from fractions import Fraction

import numpy as np

from . import core, kernels, shim, tlc

INV = "SPECIFICATION Spec\nINVARIANT BrinkmannLaws\nINVARIANT DampLaws\nINVARIANT ModeLaws\n"
BASE = {"ChiDen": 4, "Lambdas": {0, 1, 8, 1000}, "FilterMargin": 1}


def mc(chk, name, shape, kinds, widths=(0, 1, 2, 3), orders=(1, 2), margin=1, expect=None, emit=False, thetas=None):
    consts = dict(BASE, Shape=list(shape), Kinds=set(kinds), Widths=set(widths), Orders=set(orders), FilterMargin=margin)
    cfg = INV + ("CONSTRAINT EmitState\n" if emit else "")
    res = tlc.run_wrapped("MC_Stabilisers", consts, cfg, raw={"FVals": "-3..3"}, workers=1 if emit else "auto", timeout=2400)
    chk.add_tlc(name, res, expect_violation=expect)
    return res


# ---------------------------------------------------------------- Brinkmann
def replay_brinkmann(chk, cases):
    """all cases with the same lambda form one array (the operator is point-wise)."""
    by_l = {}
    for e in cases:
        by_l.setdefault(e["cs"]["d"], []).append(e)
    for real_t in (np.float64, np.float32):
        eps = float(np.finfo(real_t).eps)
        shim.set_backend("compile")
        for lam, es in sorted(by_l.items()):
            n = len(es)
            ny = 8
            nx = -(-n // ny)
            pad = ny * nx - n
            f = np.array([e["cs"]["a"] for e in es] + [0] * pad, dtype=real_t).reshape(ny, nx)
            t = np.array([e["cs"]["b"] for e in es] + [0] * pad, dtype=real_t).reshape(ny, nx)
            chi = np.array([e["cs"]["c"] / 4 for e in es] + [0] * pad, dtype=real_t).reshape(ny, nx)
            want = np.array([e["r"][0] / e["r"][1] for e in es] + [0.0] * pad).reshape(ny, nx)
            outs = {}
            o = kernels.as_view(np.full((ny, nx), 9, dtype=real_t))          # destinations are strided views of larger buffers
            kernels.gen("gen_brinkmann_penalise_pyst_kernel_2d", real_t)(penalised_field=o, field=f, char_field=chi, penalty_field=t, penalty_factor=real_t(lam))
            outs["2d scalar"] = o
            ov = np.full((2, ny, nx), 9, dtype=real_t)
            kernels.gen("gen_brinkmann_penalise_pyst_kernel_2d", real_t, field_type="vector")(
                penalised_vector_field=ov, penalty_factor=real_t(lam), char_field=chi, penalty_vector_field=np.stack([t, -t]), vector_field=np.stack([f, -f]))
            outs["2d vector x"] = ov[0]
            outs["2d vector y"] = -ov[1]
            f3, t3, c3 = (a.reshape(2, ny // 2, nx) for a in (f, t, chi))
            o3 = np.full(f3.shape, 9, dtype=real_t)
            kernels.gen("gen_brinkmann_penalise_pyst_kernel_3d", real_t)(penalised_field=o3, field=f3.copy(), char_field=c3.copy(), penalty_field=t3.copy(), penalty_factor=real_t(lam))
            outs["3d scalar"] = o3.reshape(ny, nx)
            ov3 = kernels.as_view(np.full((3,) + f3.shape, 9, dtype=real_t))
            kernels.gen("gen_brinkmann_penalise_pyst_kernel_3d", real_t, field_type="vector")(
                penalised_vector_field=ov3, penalty_factor=real_t(lam), char_field=c3.copy(), penalty_vector_field=np.stack([t3, -t3, 2 * t3]),
                vector_field=np.stack([f3, -f3, 2 * f3]))
            outs["3d vector z"] = (ov3[2] / 2).reshape(ny, nx)
            # fixed-value variant: one call per target value
            ofx = np.full((ny, nx), np.nan, dtype=real_t)
            for tv in sorted({e["cs"]["b"] for e in es}):
                tmp = np.full((ny, nx), 9, dtype=real_t)
                kernels.gen("gen_brinkmann_penalise_vs_fixed_val_pyst_kernel_2d", real_t)(
                    penalised_field=tmp, field=f, char_field=chi, penalty_factor=real_t(lam), penalty_val=real_t(tv))
                ofx[t == tv] = tmp[t == tv]
            outs["2d fixed value"] = ofx
            # ... and its vector form (penalty values per component), destination pre-filled
            ofv = np.full((2, ny, nx), np.nan, dtype=real_t)
            for tv in sorted({e["cs"]["b"] for e in es}):
                tmpv = kernels.as_view(np.full((2, ny, nx), 9, dtype=real_t))
                kernels.gen("gen_brinkmann_penalise_vs_fixed_val_pyst_kernel_2d", real_t, field_type="vector")(
                    penalised_vector_field=tmpv, penalty_factor=real_t(lam), char_field=chi, penalty_val=(real_t(tv), real_t(-tv)), vector_field=np.stack([f, -f]))
                ofv[0][t == tv] = tmpv[0][t == tv]
                ofv[1][t == tv] = tmpv[1][t == tv]
            outs["2d fixed value vector x"] = ofv[0]
            outs["2d fixed value vector y"] = -ofv[1]
            # Lagrangian variant: (u + c dt v) / (1 + c dt), c = lambda, dt = chi
            from sopht.numeric.immersed_boundary_ops.experimental.BrinkmannBoundaryForcing import BrinkmannBoundaryForcing as BBF

            ol = np.zeros((ny, nx), dtype=real_t)
            for cv in sorted({e["cs"]["c"] for e in es}):
                tmp = np.zeros((ny, nx), dtype=real_t)
                BBF.brinkmann_penalise_lag_grid_velocity_field(tmp, f, t, real_t(lam), real_t(cv / 4))
                sel = chi == real_t(cv / 4)
                ol[sel] = tmp[sel]
            outs["lagrangian"] = ol
            lo, hi = np.minimum(f, t).astype(float), np.maximum(f, t).astype(float)
            for name, o in outs.items():
                o = o.astype(float)
                chk.traces += 1
                chk.count(("brinkmann", name, lam, real_t.__name__))
                tol = 8 * eps * (1 + np.abs(want))
                bad = np.argwhere(np.abs(o - want) > tol)
                bad = [b for b in bad if b[0] * nx + b[1] < n]
                conv = np.argwhere((o < lo - 4 * eps * (1 + np.abs(lo))) | (o > hi + 4 * eps * (1 + np.abs(hi))))
                conv = [b for b in conv if b[0] * nx + b[1] < n]
                if bad or conv:
                    b = (bad or conv)[0]
                    e = es[b[0] * nx + b[1]]
                    kind = "differs from the rational result" if bad else "is not a convex combination"
                    chk.violation({"kind": "brinkmann", "variant": name},
                                  f"Brinkmann {name} ({real_t.__name__}) f={e['cs']['a']} target={e['cs']['b']} chi={e['cs']['c']}/4 lambda={lam}: "
                                  f"code {o[tuple(b)]} {kind} {e['r'][0]}/{e['r'][1]}")


# ---------------------------------------------------------------- boundary damping
def positions(shape, h, real_t):
    D = len(shape)
    out = []
    for k in range(1, D + 1):
        ax = D - k
        x = ((np.arange(shape[ax]) + 0.5) * h).astype(real_t)
        sh = [1] * D
        sh[ax] = shape[ax]
        out.append(np.broadcast_to(x.reshape(sh), shape).copy())
    return out


def replay_damp(chk, e, rng):
    shape = tuple(e["shape"])
    D = len(shape)
    w = e["cs"]["a"]
    src = np.array(e["src"]) - 1  # (..., D) 0-based
    fac = e["fac"]
    for real_t in (np.float64, np.float32):
        for vector in (False, True):
            if vector and D == 2:
                continue
            h = real_t(0.25)
            pos = positions(shape, float(h), real_t)
            kw = dict(width=w, dx=h, x_grid_field=pos[0], y_grid_field=pos[1])
            if D == 3:
                kw["z_grid_field"] = pos[2]
                if vector:
                    kw["field_type"] = "vector"
            shim.set_backend("compile")
            f0 = rng.integers(-9, 10, ((3,) if vector else ()) + shape).astype(real_t)
            f0[f0 == 0] = 3
            f = kernels.operand(f0)
            try:
                k = getattr(kernels.spne(), f"gen_penalise_field_boundary_pyst_kernel_{D}d")(real_t=real_t, **kw)
                if vector:
                    k(vector_field=f)
                else:
                    k(field=f)
            except Exception as ex:
                chk.traces += 1
                chk.violation({"kind": "damp", "width": w, "dim": D}, f"boundary damping width {w} on shape {shape} ({real_t.__name__}) raised {type(ex).__name__}: {ex}")
                continue
            eps = float(np.finfo(real_t).eps)
            comps = [(f0[i], f[i]) for i in range(3)] if vector else [(f0, f)]
            err = None
            for g0, g in comps:
                want = np.empty(shape)
                for c in np.ndindex(shape):
                    v = float(g0[tuple(src[c])])
                    for j in np.array(fac, dtype=object)[c] if False else _get(fac, c):
                        v *= math.sin(math.pi / 2 * j / w)
                    want[c] = v
                d = np.abs(g.astype(float) - want)
                tol = 64 * eps * np.abs(g0).max()
                if d.max() > tol:
                    c = np.unravel_index(np.argmax(d), shape)
                    err = f"cell {c}: code {g[c]} but specification f[src={tuple(src[c])}] * prod R{_get(fac, c)} = {want[c]}"
                    break
                # the property itself, on the code's output
                depth = _depth(shape)
                if w > 0:
                    if np.abs(g[depth == 0]).max() > 64 * eps * np.abs(g0).max():
                        err = "outermost ring not driven to zero"
                    edge = np.abs(g0[depth == min(w - 1, int(depth.max()))]).max()     # (zones from opposite sides may overlap on small grids)
                    if np.abs(g[depth < w]).max() > edge * (1 + 8 * eps):
                        err = "a zone value exceeds the largest magnitude on the zone's inner edge"
                if not np.array_equal(g[depth >= w], g0[depth >= w]):
                    err = "a cell outside the zone was modified"
                if err:
                    break
            chk.traces += 1
            chk.count(("damp", shape, w, real_t.__name__, vector))
            if err:
                chk.violation({"kind": "damp", "width": w, "dim": D}, f"boundary damping width {w} shape {shape} {real_t.__name__}{' vector' if vector else ''}: {err}")


def _get(nested, c):
    x = nested
    for i in c:
        x = x[i]
    return x


def _depth(shape):
    idx = np.indices(shape)
    d = np.full(shape, 10**6)
    for a, n in enumerate(shape):
        d = np.minimum(d, np.minimum(idx[a], n - 1 - idx[a]))
    return d


# ---------------------------------------------------------------- filters
_FILTERS: dict = {}


def apply_filter(f, n, ty, real_t, rng, vector=False):
    shape = f.shape[-3:]
    key = (n, ty, real_t, vector, shape)
    if key not in _FILTERS:
        b1 = np.zeros(shape, dtype=real_t)
        b2 = np.zeros(shape, dtype=real_t)
        k = kernels.gen("gen_laplacian_filter_kernel_3d", real_t, filter_order=n, filter_flux_buffer=b1, field_buffer=b2,
                        filter_type=ty, field_type="vector" if vector else "scalar", _nocache=True)
        _FILTERS[key] = (k, b1, b2)
    k, b1, b2 = _FILTERS[key]
    b1[...] = rng.normal(size=shape).astype(real_t) * 1e6  # stale garbage in both work buffers
    b1[0, 0, 0] = np.inf
    b2[...] = np.nan
    g = kernels.operand(f)
    with np.errstate(all="ignore"):
        if vector:
            k(vector_field=g)
        else:
            k(scalar_field=g)
    return g


def replay_mode(chk, e, rng):
    shape = tuple(e["shape"])
    m, n, ty = e["cs"]["a"], e["cs"]["b"], e["cs"]["c"]
    f0 = np.array(e["f"])
    w = n + 1
    sl = tuple(slice(w, s - w) for s in shape)
    for real_t in (np.float64, np.float32):
        shim.set_backend("compile")
        g = apply_filter(f0.astype(real_t), n, ty, real_t, rng)
        want = f0 * (e["factor"] / e["scale"])  # dyadic: exact in both precisions
        chk.traces += 1
        chk.count(("mode", tuple(m), n, ty, real_t.__name__))
        ring = np.ones(shape, dtype=bool)
        ring[tuple(slice(1, -1) for _ in shape)] = False
        if not np.array_equal(g[ring], f0.astype(real_t)[ring]):
            chk.violation({"kind": "filter_ring", "type": ty, "order": n},
                          f"{ty} filter order {n} ({real_t.__name__}): boundary-ring cells of the filtered field changed (the flux buffer's ring held "
                          f"garbage before the call; it must be cleared by the filter itself)")
        if not np.array_equal(g[sl].astype(float), want[sl]):
            d = np.abs(g[sl].astype(float) - want[sl])
            chk.violation({"kind": "filter_mode", "type": ty, "order": n},
                          f"{ty} filter order {n} ({real_t.__name__}) on Fourier mode theta-indices {m}: factor {e['factor']}/{e['scale']} expected at depth >= {w}, "
                          f"max deviation {d.max()} (stale work buffers were garbage)")


def dense_sweep(chk, rng, quick):
    """per-mode factor for theta = 2 pi k / 64 along each axis, evaluated on the code's output."""
    real_t = np.float64
    N = 20
    ks = range(0, 33, 4 if quick else 1)
    idx = np.indices((N, N, N)).astype(float)
    for ty in ("multiplicative", "convolution"):
        for n in (1, 2, 3) + (() if quick else (4,)):
            w = n + 1
            sl = (slice(w, N - w),) * 3
            worst = 0.0
            for k in ks:
                th = 2 * math.pi * k / 64
                for thetas in ((th, 0.0, 0.0), (0.0, th, 0.0), (0.0, 0.0, th), (th, th / 2, math.pi - th)):
                    f = np.cos(thetas[0] * idx[2] + 0.3) * np.cos(thetas[1] * idx[1] - 0.2) * np.cos(thetas[2] * idx[0] + 0.1)
                    g = apply_filter(f, n, ty, real_t, rng)
                    s = [math.sin(t / 2) ** (2 * n) for t in thetas]
                    fac = 1 - s[0] * s[1] * s[2] if ty == "multiplicative" else (1 - s[0]) * (1 - s[1]) * (1 - s[2])
                    d = np.abs(g[sl] - fac * f[sl]).max()
                    worst = max(worst, d)
                    chk.traces += 1
                    ok = d <= 1e-12 and -1e-15 <= fac <= 1 + 1e-15
                    # amplification check on the output itself
                    amp = np.abs(g[sl]).max() <= np.abs(f).max() * (1 + 1e-12)
                    if not (ok and amp):
                        chk.violation({"kind": "filter_sweep", "type": ty, "order": n},
                                      f"{ty} filter order {n}: mode thetas={thetas} is multiplied by something else than {fac} (dev {d}) or amplified")
            chk.count(("sweep", ty, n))
            chk.extra[f"sweep_max_dev_{ty}_{n}"] = worst


# ---------------------------------------------------------------- characteristic function
def char_func(chk, quick):
    M = 8
    eps_w = 0.25  # blend width (dyadic)
    # TLC: table of the documented closed form, scaled by 2^20
    S = 1 << 20

    def H(phi):
        if phi > eps_w:
            return 1.0
        if phi < -eps_w:
            return 0.0
        return 0.5 * (1 + phi / eps_w + math.sin(math.pi * phi / eps_w) / math.pi)

    table = [round(S * H(j * eps_w / M)) for j in range(-2 * M, 2 * M + 1)]
    res = tlc.run_wrapped("CharFunc", {"M": M, "S": S, "Table": table},
                          "SPECIFICATION Spec\nINVARIANT Range\nINVARIANT Monotone\nINVARIANT Complement\nINVARIANT Saturates\n", timeout=300)
    chk.add_tlc("CharFunc table", res)
    bad = list(table)
    bad[M + 3] = bad[M + 2] - 5
    res = tlc.run_wrapped("CharFunc", {"M": M, "S": S, "Table": bad}, "SPECIFICATION Spec\nINVARIANT Monotone\n", timeout=300)
    chk.add_tlc("control non-monotone table", res, expect_violation="Monotone")
    for real_t in (np.float64, np.float32):
        eps = float(np.finfo(real_t).eps)
        pts = [j * eps_w / M for j in range(-2 * M, 2 * M + 1)]
        e = real_t(eps_w)
        pts += [float(np.nextafter(e, real_t(1))), float(np.nextafter(e, real_t(0))), float(np.nextafter(-e, real_t(-1))), float(np.nextafter(-e, real_t(0)))]
        pts += list(np.linspace(-0.3, 0.3, 61 if quick else 2001))
        pts = np.array(sorted(set(pts)), dtype=real_t)
        both = np.concatenate([pts, -pts])
        for D in (2, 3):
            n = both.size
            shape = (2, -(-n // 2)) if D == 2 else (2, 2, -(-n // 4))
            phi = np.zeros(int(np.prod(shape)), dtype=real_t)
            phi[:n] = both
            phi = phi.reshape(shape)
            out = np.full(shape, 9, dtype=real_t)
            shim.set_backend("compile")
            k = getattr(kernels.spne(), f"gen_char_func_from_level_set_via_sine_heaviside_pyst_kernel_{D}d")(blend_width=eps_w, real_t=real_t)
            k(char_func_field=out, level_set_field=phi)
            o = out.reshape(-1)[:n].astype(float)
            hp, hm = o[: pts.size], o[pts.size:]
            want = np.array([H(float(p)) for p in pts])
            errs = []
            if np.abs(hp - want).max() > 8 * eps:
                i = int(np.argmax(np.abs(hp - want)))
                errs.append(f"H({pts[i]}) = {hp[i]} but the documented formula gives {want[i]}")
            if hp.min() < -4 * eps or hp.max() > 1 + 4 * eps:
                errs.append("value outside [0, 1]")
            if np.any(np.diff(hp) < -4 * eps):
                errs.append("not non-decreasing")
            if np.abs(hp + hm - 1).max() > 4 * eps:
                errs.append("H(phi) + H(-phi) != 1")
            if np.any(hp[pts > eps_w] != 1) or np.any(hp[pts < -eps_w] != 0):
                errs.append("not exactly 0 / 1 beyond the blend width")
            chk.traces += 1
            chk.count(("char", D, real_t.__name__))
            for er in errs:
                chk.violation({"kind": "char_func", "dim": D}, f"characteristic function {D}-D {real_t.__name__}: {er}")


def run(chk: core.Check):
    shim.install()
    quick = chk.tier == "quick"
    rng = np.random.default_rng(chk.seed)
    widths = (0, 1, 2, 3) if quick else (0, 1, 2, 3, 4, 5, 6)
    s2 = (7, 8) if quick else (13, 14)
    s3 = (6, 7, 8) if quick else (12, 13, 12)
    r = mc(chk, "2D brinkmann+damp", s2, {"brinkmann", "damp"}, widths=widths, emit=True)
    cases = tlc.dedupe(r.emits)
    replay_brinkmann(chk, [e for e in cases if e["cs"]["kind"] == "brinkmann"])
    for e in cases:
        if e["cs"]["kind"] == "damp":
            replay_damp(chk, e, rng)
            if e["cs"]["a"] == 2:
                chk.sample({"cs": e["cs"], "shape": e["shape"], "src_row0": e["src"][0][:4], "fac_row0": e["fac"][0][:4]})
    r = mc(chk, "3D damp", s3, {"damp"}, widths=widths, emit=True)
    for e in tlc.dedupe(r.emits):
        replay_damp(chk, e, rng)
    orders = (1, 2)
    r = mc(chk, "3D filter modes", (7, 7, 8), {"mode"}, orders=orders, emit=True)
    modes = tlc.dedupe(r.emits)
    for i, e in enumerate(modes):
        if quick and i % 3 != chk.seed % 3 and tuple(e["cs"]["a"]) not in ((0, 0, 0), (4, 4, 4)):
            continue
        replay_mode(chk, e, rng)
        if len(chk.samples) < 4 and e["cs"]["a"] == [1, 2, 3]:
            chk.sample({"cs": e["cs"], "factor": e["factor"], "scale": e["scale"]})
    if not quick:
        r = mc(chk, "3D filter modes order 3", (9, 9, 10), {"mode"}, orders=(3,), emit=True)
        for e in tlc.dedupe(r.emits):
            replay_mode(chk, e, rng)
    mc(chk, "control filter margin 0", (7, 7, 8), {"mode"}, orders=(1,), margin=0, expect="ModeLaws")
    dense_sweep(chk, rng, quick)
    char_func(chk, quick)
    chk.assumptions += [
        "Brinkmann: lattice of fields/targets in -3..3, indicators k/4, penalties {0,1,8,1000}; the operator is a rational function "
        "monotone in each argument, compared within 8 eps; convexity evaluated on the code's outputs",
        "boundary damping: grids with at least 2w cells per axis; ramp samples R[j] = sin(pi/2 j/w) evaluated by the harness from the "
        "documented formula; outermost ring compared with zero up to 64 eps * max|field| (the kernel bakes the domain start into "
        "the generated code as a decimal constant)",
        "filters: exact eigen-relations for modes with rational cosine at cells deeper than order+1, with both work buffers poisoned; "
        "dense sweep theta = 2 pi k/64 in double precision at 1e-12",
        "characteristic function: documented closed form tabulated by the harness (2^20 fixed point) for the TLC invariants; the code is "
        "compared with the closed form at lattice points, exactly +-blend width and their floating-point neighbours",
    ]
    return ("case = Brinkmann lattice point x kernel variant x precision; damping (shape, width, precision, scalar/vector); filter "
            "Fourier mode x order x type x precision; characteristic-function sample sets per dimension/precision")
