"""X04 -- extended coverage: the body sub-stepping schedule of the two-way coupled examples (spec/SubStep.tla).

TLC: exhaustive over flow / body step sizes (integer ticks): with the examples' rounding (int(), "floor") the clocks re-synchronise
after every sub-cycle, the forcing is spread exactly once per flow step, the sub-step stays below twice the requested body step --
and `RodDtRespected` (sub-step <= requested body step) is REFUTED, which is recorded as an observation about the examples; with
"ceil" it holds.  Binding: the two statements that compute the schedule are extracted from the source text of every example that
sub-cycles (no example is executed), evaluated on every (flow_dt, rod_dt) case TLC emits and compared with the specification; the
sub-cycle is then run on real objects (2-D simulator + cylinder + virtual boundary) and the clock law is evaluated at every loop head.
Run with `./check X04`; not registered in MANIFEST.json."""
from __future__ import annotations

import glob
import os
import re

import numpy as np

from . import core, shim, tlc

LAWS = "INVARIANT AtLeastOne\nINVARIANT ClockSync\nINVARIANT OneSpread\nINVARIANT BelowTwice\nINVARIANT NotTooMany\n"


def example_schedules():
    """-> {example path: (statement for rod_time_steps, statement for local_rod_dt)} from the examples' source text."""
    repo = os.environ.get("SOPHT_REPO", "/repo")
    root = "/repo/examples" if not os.path.isdir(os.path.join(repo, "examples")) else os.path.join(repo, "examples")
    out = {}
    for path in sorted(glob.glob(os.path.join(root, "**", "*.py"), recursive=True)):
        src = open(path).read()
        m1 = re.search(r"^\s*(rod_time_steps\s*=\s*.+)$", src, re.M)
        m2 = re.search(r"^\s*(local_rod_dt\s*=\s*.+)$", src, re.M)
        if m1 and m2:
            s1 = re.sub(r"\b\w+\.dt\b", "rod_dt", m1.group(1).strip())      # `fish_sim.dt` etc. play the role of rod_dt
            out[os.path.relpath(path, root)] = (s1, m2.group(1).strip())
    return out


def run(chk: core.Check):
    shim.install()
    shim.set_backend("compile")
    quick = chk.tier == "quick"
    raw = {"FlowDts": "1..24", "RodDts": "1..12"}
    res = tlc.run_wrapped("SubStep", {"MaxIter": 2, "Rounding": "floor"}, "SPECIFICATION Spec\n" + LAWS + "CONSTRAINT EmitCase\nCHECK_DEADLOCK FALSE\n", raw=raw, timeout=900)
    chk.add_tlc("SubStep floor (as in the examples)", res)
    cases = tlc.dedupe(res.emits, lambda e: e)
    r2 = tlc.run_wrapped("SubStep", {"MaxIter": 1, "Rounding": "floor"}, "SPECIFICATION Spec\nINVARIANT RodDtRespected\nCHECK_DEADLOCK FALSE\n", raw=raw, timeout=600)
    chk.add_tlc("observation: int() lets the body sub-step exceed the requested body step", r2, expect_violation="RodDtRespected")
    r3 = tlc.run_wrapped("SubStep", {"MaxIter": 2, "Rounding": "ceil"}, "SPECIFICATION Spec\n" + LAWS + "INVARIANT RodDtRespected\nCHECK_DEADLOCK FALSE\n", raw=raw, timeout=900)
    chk.add_tlc("SubStep ceil (design alternative)", r3)
    # ---- the examples' own statements on the emitted cases ---------------------------------------------------------------
    sched = example_schedules()
    if len(sched) < 5 or not cases:
        raise core.MachineryError(f"found {len(sched)} sub-cycling examples and {len(cases)} emitted cases")
    chk.extra["examples_bound"] = sorted(sched)
    worst = 0.0
    for name, (s1, s2) in sched.items():
        bad = None
        for e in cases:
            for tick in (1.0, 2.0**-10):
                ns = {"flow_dt": e["fdt"] * tick, "rod_dt": e["rdt"] * tick, "min": min, "int": int}
                try:
                    exec(s1, {}, ns)
                    exec(s2, {}, ns)
                except Exception as ex:
                    bad = f"statement raised {type(ex).__name__}: {ex}"
                    break
                n, local = ns["rod_time_steps"], ns["local_rod_dt"]
                if n != e["n"] or local != e["fdt"] * tick / e["n"]:
                    bad = f"flow_dt = {e['fdt']} ticks, rod_dt = {e['rdt']} ticks: the example computes {n} sub-steps of {local / tick} ticks, the specification {e['n']} of {e['fdt']}/{e['n']}"
                    break
                worst = max(worst, local / (e["rdt"] * tick))
            if bad:
                break
        chk.traces += 1
        chk.count(("example", name))
        if bad:
            chk.violation({"kind": "substep_schedule", "example": name}, f"examples/{name}: `{s1}` / `{s2}`: {bad}")
    chk.extra["largest_substep_over_requested_body_step"] = worst
    chk.sample({"statements": next(iter(sched.values())), "examples": len(sched), "largest sub-step / requested body step": worst})
    # ---- the sub-cycle on real objects ---------------------------------------------------------------------------------------
    import elastica as ea
    import sopht.simulator as sps

    rng = np.random.default_rng(chk.seed)
    s1, s2 = next(iter(sched.values()))
    for real_t in (np.float64, np.float32):
        sim = sps.UnboundedNavierStokesFlowSimulator2D(grid_size=(32, 40), x_range=2.0, kinematic_viscosity=0.01, real_t=real_t, with_forcing=True,
                                                       with_free_stream_flow=True, flow_density=1.0)
        cyl = ea.Cylinder(np.array([0.7, 0.8, 0.0]), np.array([0.0, 0.0, 1.0]), np.array([1.0, 0.0, 0.0]), 1.0, 0.15, density=1e3)
        cyl.velocity_collection[:2, 0] = [0.05, -0.02]
        inter = sps.RigidBodyFlowInteraction(rigid_body=cyl, eul_grid_forcing_field=sim.eul_grid_forcing_field, eul_grid_velocity_field=sim.velocity_field,
                                             virtual_boundary_stiffness_coeff=-5e2, virtual_boundary_damping_coeff=-1e1, dx=sim.dx, grid_dim=2,
                                             real_t=real_t, forcing_grid_cls=sps.CircularCylinderForcingGrid, num_forcing_points=24)
        eps = float(np.finfo(real_t).eps)
        pm_ref = np.zeros_like(inter.lag_grid_position_mismatch_field, dtype=np.float64)
        errs = []
        nsub_total = 0
        for it in range(6 if quick else 20):
            flow_dt = float(sim.compute_stable_timestep(dt_prefac=float(rng.choice([1.0, 0.5, 0.25]))))
            rod_dt = flow_dt / float(rng.choice([0.7, 1.0, 2.5, 3.0, 4.9]))
            ns = {"flow_dt": flow_dt, "rod_dt": rod_dt, "min": min, "int": int}
            exec(s1, {}, ns)
            exec(s2, {}, ns)
            n, local = ns["rod_time_steps"], ns["local_rod_dt"]
            rod_time = float(sim.time)
            for _ in range(n):
                # body step: two-way coupling evaluates the interaction on the Lagrangian grid, then the body moves
                inter.compute_flow_forces_and_torques()
                cyl.position_collection[:2, 0] += local * cyl.velocity_collection[:2, 0]
                rod_time += local
                pm_ref = pm_ref + local * inter.lag_grid_velocity_mismatch_field.astype(np.float64)
                inter.time_step(dt=local)
                nsub_total += 1
            inter()
            if not np.any(sim.eul_grid_forcing_field != 0):
                errs.append(f"iteration {it}: interaction left the forcing field empty")
            sim.time_step(dt=flow_dt, free_stream_velocity=np.array([1.0, 0.0]))
            chk.traces += 1
            chk.count(("subcycle", real_t.__name__, it))
            if n < 1 or not local < 2 * rod_dt * (1 + 4 * eps):
                errs.append(f"iteration {it}: {n} sub-steps of {local} for flow_dt={flow_dt}, rod_dt={rod_dt} (bound: below twice the requested body step)")
            # clocks: equal in exact arithmetic; in floating point n additions of flow_dt / n may differ from one addition of flow_dt by rounding
            tol = 4 * eps * (nsub_total + it + 1) * max(1.0, float(sim.time))
            if abs(float(inter.time) - float(sim.time)) > tol or abs(rod_time - float(sim.time)) > tol:
                errs.append(f"iteration {it}: flow time {sim.time!r}, forcing clock {inter.time!r}, body clock {rod_time!r} differ by more than rounding")
            if np.any(sim.eul_grid_forcing_field != 0):
                errs.append(f"iteration {it}: forcing not consumed by the flow step")
            if np.abs(inter.lag_grid_position_mismatch_field - pm_ref).max() > 16 * eps * (nsub_total + 1) * (1 + np.abs(pm_ref).max()):
                errs.append(f"iteration {it}: integral != sum over sub-steps of local_dt * (mismatch evaluated in that sub-step)")
        for er in errs[:3]:
            chk.violation({"kind": "substep_loop"}, f"sub-cycled coupled loop ({real_t.__name__}): {er}")
    chk.assumptions += [
        "times are integer ticks in the model; the examples' statements are evaluated on ticks scaled by 1 and 2^-10 (exact in binary); "
        "for other floats int(flow_dt / rod_dt) may round an exact multiple down by one (still within the BelowTwice bound)",
        "the examples are bound through their source text (the two schedule statements), not executed",
    ]
    return "case = (flow_dt, rod_dt) in ticks x example file, plus loop iterations of a real sub-cycled run per precision"
