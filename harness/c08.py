"""C08 -- action equals reaction between every immersed body and the fluid.

TLC: spec/Bodies.tla over exact rationals (rational rotations from integer quaternions; unit
forces on every marker/component; balance of force, of moment about two points, power identity;
rod grids with taper and caps).  Binding: every case is loaded into real PyElastica bodies and
the real forcing grids, `transfer_forcing_from_grid_to_body` is run and (a) compared with the
model's rational result, (b) the balance laws are evaluated on the code's own outputs for random
forces on ALL markers of the grid's natural layout; the coupled path FlowForces.apply_forces /
spreading is checked for a zero net force on fluid + body."""
from __future__ import annotations

import numpy as np

from . import bodies, core, shim, tlc

P0 = np.array([1.0, 2.0, 3.0])
TOL = 2e-12


def rigid_case(chk, e, rng):
    kind = e["cs"]["kind"]
    variants = ["cyl2d"] if kind == "rigid2" else ["cylinder", "sphere", "plane"]
    Q, X, V, W = bodies.mat(e["Q"]), bodies.vec(e["X"]), bodies.vec(e["V"]), bodies.vec(e["W"])
    for k3 in variants:
        body, grid, D = bodies.make_rigid(k3, e)
        grid.compute_lag_grid_position_field()
        grid.compute_lag_grid_velocity_field()
        N = grid.num_lag_nodes
        errs = []
        # (a) the model's case: unit force on one of the first three markers
        F = np.zeros((D, N))
        for m in range(3):
            F[:, m] = bodies.vec(e["F"][m])[:D]
        ff, tt = np.zeros((3, 1)), np.zeros((3, 1))
        grid.transfer_forcing_from_grid_to_body(body_flow_forces=ff, body_flow_torques=tt, lag_grid_forcing_field=F)
        wf, wt = bodies.vec(e["force"]), bodies.vec(e["torque"])
        if np.abs(ff[:, 0] - wf).max() > TOL:
            errs.append(f"net force {ff[:, 0]} but the specification gives {wf}")
        if np.abs(tt[:, 0] - wt).max() > TOL:
            errs.append(f"couple (material frame) {tt[:, 0]} but the specification gives {wt}")
        # (b) the balance laws on the code's outputs, random forces on every marker of the natural layout
        F = rng.integers(-3, 4, (D, N)).astype(float)
        ff, tt = np.zeros((3, 1)), np.zeros((3, 1))
        grid.transfer_forcing_from_grid_to_body(body_flow_forces=ff, body_flow_torques=tt, lag_grid_forcing_field=F)
        F3 = np.zeros((3, N))
        F3[:D] = F
        x3 = np.zeros((3, N))
        x3[:D] = grid.position_field
        v3 = np.zeros((3, N))
        v3[:D] = grid.velocity_field
        Xb = body.position_collection[:, 0].copy()
        if D == 2:
            x3[2] = Xb[2]
        tau_lab = body.director_collection[:, :, 0].T @ tt[:, 0]
        w_lab = body.director_collection[:, :, 0].T @ body.omega_collection[:, 0]
        scale = 1 + np.abs(F).sum()
        if np.abs(ff[:, 0] + F3.sum(axis=1)).max() > TOL * scale:
            errs.append(f"net force on the body {ff[:, 0]} != -sum of marker forces {-F3.sum(axis=1)}")
        for about in (np.zeros(3), P0 if D == 3 else np.array([1.0, 2.0, Xb[2]])):
            lhs = np.cross(Xb - about, ff[:, 0]) + tau_lab
            rhs = -bodies.moment(x3, F3, about)
            comp = slice(0, 3) if D == 3 else slice(2, 3)
            if np.abs(lhs[comp] - rhs[comp]).max() > TOL * scale * 10:
                errs.append(f"net moment about {about}: body {lhs[comp]} != -marker moment {rhs[comp]}")
        power_b = ff[:, 0] @ body.velocity_collection[:, 0] + tau_lab @ w_lab
        power_m = -(F3 * v3).sum()
        if abs(power_b - power_m) > TOL * scale * 50:
            errs.append(f"power of the transferred wrench {power_b} != -power of marker forces {power_m}")
        chk.traces += 1
        chk.count((kind, k3, tlc.canon(e["cs"])))
        for er in errs[:2]:
            chk.violation({"kind": "reaction", "grid": k3}, f"{type(grid).__name__} (case {e['cs']}): {er}", {"case": e["cs"], "error": er})


def rod_case(chk, e, rng, dim2=False):
    kind = e["cs"]["kind"]
    if not dim2 and kind in ("rod_elem", "rod_nodal") and e["cs"]["fc"] <= 2:
        rod_case(chk, e, rng, dim2=True)        # the 2-D variants of these grids (in-plane force components)
    rod = bodies.make_rod(e)
    grid, D = bodies.make_rod_grid(kind, rod, e, dim2)
    grid.compute_lag_grid_position_field()
    grid.compute_lag_grid_velocity_field()
    N = grid.num_lag_nodes
    errs = []
    nodes = rod.position_collection
    if kind != "rod_nodal":
        if N != len(e["pos"]):
            errs.append(f"grid has {N} markers, the specification {len(e['pos'])} (per element {e['npts']})")
        else:
            F = np.array([bodies.vec(f)[:D] for f in e["F"]]).T
            ff, tt = np.full((3, 4), 9.0), np.full((3, 3), 9.0)
            if kind == "rod_elem":
                tt[...] = 0  # the element-centric grid leaves the couples as initialised (zero)
            grid.transfer_forcing_from_grid_to_body(body_flow_forces=ff, body_flow_torques=tt, lag_grid_forcing_field=F)
            wf = np.array([bodies.vec(f) for f in e["nodef"]]).T
            wt = np.array([bodies.vec(t) for t in e["couple"]]).T
            if dim2:
                ff[2] = wf[2]      # a 2-D grid writes the in-plane components only
            if np.abs(ff - wf).max() > TOL:
                errs.append(f"nodal forces differ from the specification by {np.abs(ff - wf).max():.3g}")
            if np.abs(tt - wt).max() > TOL:
                errs.append(f"element couples differ from the specification by {np.abs(tt - wt).max():.3g}: code {tt.T.tolist()} spec {wt.T.tolist()}")
    # balance on the code's outputs with random forces on all markers
    F = rng.integers(-3, 4, (D, N)).astype(float)
    ff, tt = np.zeros((3, 4)), np.zeros((3, 3))
    grid.transfer_forcing_from_grid_to_body(body_flow_forces=ff, body_flow_torques=tt, lag_grid_forcing_field=F)
    F3 = np.zeros((3, N))
    F3[:D] = F
    x3 = np.zeros((3, N))
    x3[:D] = grid.position_field
    scale = 1 + np.abs(F).sum()
    if np.abs(ff.sum(axis=1) + F3.sum(axis=1)).max() > TOL * scale:
        errs.append(f"sum of nodal forces {ff.sum(axis=1)} != -sum of marker forces {-F3.sum(axis=1)}")
    if kind != "rod_nodal":
        tau_lab = np.einsum("jie,je->ie", rod.director_collection, tt)  # Q^T tau per element
        for about in (np.zeros(3), P0):
            lhs = bodies.moment(nodes, ff, about) + tau_lab.sum(axis=1)
            rhs = -bodies.moment(x3, F3, about)
            comp = slice(0, 3) if D == 3 else slice(2, 3)
            if np.abs(lhs[comp] - rhs[comp]).max() > TOL * scale * 10:
                errs.append(f"net moment about {about}: nodal forces + couples {lhs[comp]} != -marker moment {rhs[comp]}")
    chk.traces += 1
    chk.count((kind, dim2, tlc.canon(e["cs"])))
    for er in errs[:2]:
        chk.violation({"kind": "reaction", "grid": kind}, f"{type(grid).__name__} grid_dim={D} (case {e['cs']}): {er}", {"case": e["cs"], "error": er})


def coupled_path(chk, rng, quick):
    """fluid + body: grid integral of the spread force density + net force on the body = 0 (with C07)."""
    import elastica as ea
    import sopht.simulator as sps

    for trial in range(2 if quick else 8):
        h = 0.125
        grid = (28, 28, 28)
        vel = rng.normal(size=(3,) + grid)
        forcing = np.zeros_like(vel)
        rod = ea.CosseratRod.straight_rod(5, np.array([1.2, 1.3, 1.4]), np.array([2.0, 1.0, 2.0]) / 3.0, np.array([1.0, -2.0, 0.0]) / np.sqrt(5.0),
                                          1.0, 0.12, density=1e3, youngs_modulus=1e6, shear_modulus=1e6 / 1.5)
        rod.velocity_collection[...] = rng.normal(size=rod.velocity_collection.shape)
        rod.omega_collection[...] = rng.normal(size=rod.omega_collection.shape)
        cls = [sps.CosseratRodElementCentricForcingGrid, sps.CosseratRodSurfaceForcingGrid][trial % 2]
        kw = {} if trial % 2 == 0 else {"surface_grid_density_for_largest_element": 6, "with_cap": bool(trial % 4 == 1)}
        inter = sps.CosseratRodFlowInteraction(cosserat_rod=rod, eul_grid_forcing_field=forcing, eul_grid_velocity_field=vel,
                                               virtual_boundary_stiffness_coeff=50.0, virtual_boundary_damping_coeff=3.0, dx=h, grid_dim=3,
                                               forcing_grid_cls=cls, **kw)
        inter.lag_grid_position_mismatch_field[...] = rng.normal(size=inter.lag_grid_position_mismatch_field.shape)
        inter()  # evaluates and spreads
        rod.external_forces[...] = 0
        rod.external_torques[...] = 0
        sps.FlowForces(inter).apply_forces(rod)
        fluid = forcing.reshape(3, -1).sum(axis=1) * h**3
        body = rod.external_forces.sum(axis=1)
        scale = 1 + np.abs(inter.lag_grid_forcing_field).sum()
        chk.traces += 1
        chk.count(("coupled", trial))
        if np.abs(fluid + body).max() > 1e-11 * scale:
            chk.violation({"kind": "reaction_coupled"}, f"{cls.__name__}: integral of the force density on the fluid {fluid} + net force on the body {body} != 0")
        if not np.array_equal(rod.external_forces, inter.body_flow_forces) or not np.array_equal(rod.external_torques, inter.body_flow_torques):
            chk.violation({"kind": "reaction_coupled"}, "FlowForces.apply_forces did not add exactly the transferred forces/couples to the rod")


def run(chk: core.Check):
    shim.install()
    quick = chk.tier == "quick"
    rng = np.random.default_rng(chk.seed)
    bodies.model_check(chk, quick)
    cases = bodies.emit_cases(chk, bodies.ALL_KINDS - {"rod_nodal"} | {"rod_nodal"}, quick, "Bodies emit")
    for i, e in enumerate(cases):
        k = e["cs"]["kind"]
        if quick and k == "rod_surf" and i % 3 != chk.seed % 3:
            continue
        try:
            if k in ("rigid3", "rigid2"):
                rigid_case(chk, e, rng)
            else:
                rod_case(chk, e, rng)
        except core.MachineryError:
            raise
        except Exception as ex:
            chk.traces += 1
            chk.violation({"kind": "reaction_exception", "grid": k}, f"case {e['cs']}: {type(ex).__name__}: {ex}")
        if len(chk.samples) < 3 and k in ("rigid3", "rod_surf") and e["cs"]["q"] == [1, 2, 3, 4]:
            chk.sample({"cs": e["cs"], "force": e.get("force"), "torque": e.get("torque"), "couple": e.get("couple")})
    coupled_path(chk, rng, quick)
    chk.assumptions += [
        "the transfer is linear in the marker forces: unit forces on every marker/component of the model's grids cover all forcing "
        "fields; the code is additionally driven with random integer forces on every marker of each grid's natural layout",
        "rigid-body cases overwrite the first three marker arms of the real grids with the model's rational arms (public attribute), "
        "the remaining markers keep the class's own layout",
        "rotations are rational (integer quaternions), non-symmetric and not axis aligned; comparison at 2e-12",
        "the nodal rod grid is excluded from the moment law, as the property states",
    ]
    return "case = (grid type, pose, marker, force component) from TLC + random full-layout forcing per case; coupled fluid+body runs"
