"""Shared pieces of C06 / C07: documented delta kernels, quantised 1-D tables for Interp.tla,
construction of the real grid communicators."""
from __future__ import annotations

import math

import numpy as np

_COMM: dict = {}


def cosine(d):
    return 0.25 * (1 + math.cos(math.pi * d / 2)) if abs(d) <= 2 else 0.0


def peskin(d):
    r = abs(d)
    if r < 1:
        return 0.125 * (3 - 2 * r + math.sqrt(1 + 4 * r - 4 * r * r))
    if r < 2:
        return 0.125 * (5 - 2 * r - math.sqrt(max(0.0, -7 + 12 * r - 4 * r * r)))
    return 0.0


PHI = {"cosine": cosine, "peskin": peskin}


def table(kind, M, S):
    """integer 1-D table for Interp.tla satisfying the documented laws EXACTLY: cosine -- three entries
    quantised from the closed form, the fourth the complement; Peskin -- phi(rho) quantised, the others
    from the even/odd sum and first-moment identities."""
    rows = []
    for r in range(M):
        rho = r / M
        if kind == "cosine":
            t = [round(S * cosine(j - rho)) for j in (-1, 0, 1)]
            t.append(S - sum(t))
        else:
            b = round(S * peskin(rho))
            assert S * (3 * M - 2 * r) % (4 * M) == 0
            a = S * (3 * M - 2 * r) // (4 * M) - b
            t = [a, b, S // 2 - a, S // 2 - b]
        true = [S * PHI[kind](j - rho) for j in (-1, 0, 1, 2)]
        assert max(abs(x - y) for x, y in zip(t, true)) < 2.5, (kind, r, t, true)
        rows.append(t)
    return rows


def comm(D, h, N, real_t, kind, ncomp, sfrac=0.5, width=2):
    """sfrac: coordinate of the centre of cell 0 in units of h (eul_grid_coord_shift = sfrac * h; the simulators use 1/2)."""
    key = (D, h, N, real_t, kind, ncomp, sfrac, width)
    if key not in _COMM:
        if D == 2:
            from sopht.numeric.immersed_boundary_ops import EulerianLagrangianGridCommunicator2D as C
        else:
            from sopht.numeric.immersed_boundary_ops import EulerianLagrangianGridCommunicator3D as C
        _COMM[key] = C(dx=real_t(h), eul_grid_coord_shift=real_t(sfrac * h), num_lag_nodes=N, interp_kernel_width=width,
                       real_t=real_t, n_components=ncomp, interp_kernel_type=kind)
    return _COMM[key]


def support_and_weights(c, pos, D, real_t, width=2):
    N = pos.shape[1]
    idx = np.empty((D, N), dtype=int)
    sup = np.empty((D,) + (2 * width,) * D + (N,), dtype=real_t)
    w = np.empty((2 * width,) * D + (N,), dtype=real_t)
    c.local_eulerian_grid_support_of_lagrangian_grid_kernel(
        local_eul_grid_support_of_lag_grid=sup, nearest_eul_grid_index_to_lag_grid=idx, lag_positions=pos)
    c.interpolation_weights_kernel(interp_weights=w, local_eul_grid_support_of_lag_grid=sup)
    return idx, w


def reference_interpolation(vel, pos, h, sfrac=0.5, kind="cosine"):
    """documented Eulerian-to-Lagrangian interpolation, written independently of the library: tensor-product delta function of the
    four nearest cells per direction; cell i has its centre at (i + sfrac) h; vel is (ncomp, .., y, x), pos is (D, N) with x first."""
    vel = np.asarray(vel, dtype=float)
    pos = np.asarray(pos, dtype=float)
    D, N = pos.shape
    phi = PHI[kind]
    out = np.zeros((vel.shape[0], N))
    for m in range(N):
        idx = [int(np.floor(pos[k, m] / h - sfrac)) for k in range(D)]
        w = np.ones((4,) * D)
        for k in range(D):
            d = [(idx[k] + j) + sfrac - pos[k, m] / h for j in (-1, 0, 1, 2)]
            sh = [1] * D
            sh[D - 1 - k] = 4
            w = w * np.array([phi(x) for x in d]).reshape(sh)
        sl = tuple(slice(idx[D - 1 - a] - 1, idx[D - 1 - a] + 3) for a in range(D))
        for c in range(vel.shape[0]):
            out[c, m] = float((vel[c][sl] * w).sum())
    return out
