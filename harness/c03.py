"""C03 -- the unbounded Poisson solve equals the free-space Green's-function convolution.

TLC: spec/Poisson.tla (buffer state machine with arbitrary stale work-buffer contents and solve
sequences; values are symbolic-linear forms over Green's-function samples; three wrong design
variants refuted).  Replay: the behaviours TLC emits are run through the real solvers whose
public work buffers are overwritten with garbage before every solve; the predicted linear forms
are evaluated with the DOCUMENTED closed-form Green's function.  In addition the measured kernel
K[i][j] = solve(e_j)[i] of the real solver is compared with G h^D for all cell pairs."""
from __future__ import annotations

import itertools
import math

import numpy as np

from . import core, shim, tlc

INV = "SPECIFICATION Spec\nINVARIANT FreeSpace\nINVARIANT NoPeriodicImage\nCHECK_DEADLOCK FALSE\n"
BASE = {"RhsSet": "impulses", "MaxSolves": 2, "ResetBeforeCopy": True, "Corner": "low", "Reflect": "even", "SkipZeroRhs": False}
_SOLVERS: dict = {}


def green(sep, h, D):
    """documented free-space Green's function of -Laplacian at cell separation `sep` (tuple of ints)."""
    r2 = sum(s * s for s in sep)
    if D == 2:
        if r2 == 0:
            return -(2 * math.log(h / math.sqrt(math.pi)) - 1) / (4 * math.pi)
        return -math.log(h * math.sqrt(r2)) / (2 * math.pi)
    if r2 == 0:
        return 1 / (4 * math.pi * h)
    return 1 / (4 * math.pi * h * math.sqrt(r2))


def solver(shape, x_range, real_t):
    import sopht.numeric.eulerian_grid_ops as spne

    key = (shape, x_range, real_t)
    if key not in _SOLVERS:
        if len(shape) == 2:
            _SOLVERS[key] = spne.UnboundedPoissonSolverPYFFTW2D(grid_size_y=shape[0], grid_size_x=shape[1], x_range=x_range, real_t=real_t)
        else:
            _SOLVERS[key] = spne.UnboundedPoissonSolverPYFFTW3D(
                grid_size_z=shape[0], grid_size_y=shape[1], grid_size_x=shape[2], x_range=x_range, real_t=real_t)
    return _SOLVERS[key]


def poison(s, rng):
    """the model's havoc: every public work buffer holds arbitrary leftovers before a solve."""
    s.domain_doubled_buffer[...] = rng.normal(size=s.domain_doubled_buffer.shape) * 1e3
    g = rng.normal(size=s.convolution_buffer.shape) * 1e3
    s.convolution_buffer[...] = g + 1j * g[::-1]
    s.domain_doubled_fourier_buffer[...] = (g * 3 - 1j * g).astype(s.domain_doubled_fourier_buffer.dtype)


def tol_for(real_t, scale):
    return (5e-12 if real_t == np.float64 else 2e-4) * scale


def replay(chk, e, real_t, x_range, rng):
    shape = tuple(e["shape"])
    D = len(shape)
    if D == 1:
        return
    s = solver(shape, x_range, real_t)
    h = x_range / shape[-1]
    rhs = np.zeros(shape, dtype=real_t)
    for r in e["rhs"]:
        rhs[tuple(r["c"])] = r["v"]
    want = np.zeros(shape)
    gmax = 0.0
    for c in e["sol"]:
        v = 0.0
        for t in c["form"]:
            g = green(tuple(t["s"]), h, D) * h**D
            gmax = max(gmax, abs(g * t["k"]))
            v += t["k"] * g
        want[tuple(c["c"])] = v
    poison(s, rng)
    sol = np.full(shape, 123.0, dtype=real_t)
    rhs0 = rhs.copy()
    s.solve(solution_field=sol, rhs_field=rhs)
    chk.traces += 1
    chk.count((shape, tlc.canon(e["rhs"]), real_t.__name__, x_range))
    d = np.abs(sol.astype(float) - want).max()
    scale = max(gmax, np.abs(want).max(), 1e-300) * max(1, int(np.abs(rhs).sum()))
    if not np.array_equal(rhs, rhs0):
        chk.violation({"kind": "poisson", "dim": D}, f"solve modified its right-hand side (shape {shape})")
    if not (d <= tol_for(real_t, scale)):
        chk.violation({"kind": "poisson", "dim": D},
                      f"unbounded Poisson solve {shape} x_range={x_range} {real_t.__name__} (solve #{e['n']} of a sequence, garbage in the work "
                      f"buffers): max |code - free-space convolution| = {d:.3g} (allowance {tol_for(real_t, scale):.3g})",
                      {"emit": e, "dev": d})


def measured_kernel(chk, shape, x_range, real_t, rng):
    """K[i][j] = solve(e_j)[i] for all cell pairs of the real solver vs G h^D; symmetry; linearity."""
    D = len(shape)
    s = solver(shape, x_range, real_t)
    h = x_range / shape[-1]
    cells = list(np.ndindex(shape))
    n = len(cells)
    K = np.zeros((n, n))
    for j, cj in enumerate(cells):
        rhs = np.zeros(shape, dtype=real_t)
        rhs[cj] = 1
        poison(s, rng)
        sol = np.zeros(shape, dtype=real_t)
        s.solve(solution_field=sol, rhs_field=rhs)
        K[:, j] = sol.reshape(-1)
    want = np.array([[green(tuple(abs(a - b) for a, b in zip(ci, cj)), h, D) * h**D for cj in cells] for ci in cells])
    scale = np.abs(want).max()
    d = np.abs(K - want).max()
    chk.traces += 1
    chk.count(("kernel", shape, x_range, real_t.__name__))
    if not d <= tol_for(real_t, scale):
        i, j = np.unravel_index(np.argmax(np.abs(K - want)), K.shape)
        chk.violation({"kind": "poisson_kernel", "dim": D},
                      f"measured kernel of the {D}-D solver {shape} x_range={x_range} {real_t.__name__}: K[{cells[i]}][{cells[j]}] = {K[i, j]!r} but "
                      f"G h^D = {want[i, j]!r}")
    if not np.abs(K - K.T).max() <= tol_for(real_t, scale):
        chk.violation({"kind": "poisson_kernel", "dim": D}, f"measured kernel {shape} is not symmetric under exchange of source and target")
    # linearity + independence of history on a random right-hand side
    r1 = rng.integers(-3, 4, shape).astype(real_t)
    poison(s, rng)
    a = np.zeros(shape, dtype=real_t)
    s.solve(solution_field=a, rhs_field=r1)
    lin = (K @ r1.reshape(-1).astype(float)).reshape(shape)
    if not np.abs(a - lin).max() <= tol_for(real_t, scale * np.abs(r1).sum()):
        chk.violation({"kind": "poisson_kernel", "dim": D}, f"solve {shape} is not the linear combination of its impulse responses")


def zero_rhs(chk, shape, real_t, rng):
    """an identically zero right-hand side must give an identically zero solution, whatever the output array and
    the work buffers held before (e.g. the result of an earlier solve)."""
    s = solver(shape, 1.0, real_t)
    D = len(shape)
    first = np.zeros(shape, dtype=real_t)
    s.solve(solution_field=first, rhs_field=rng.integers(-3, 4, shape).astype(real_t))
    poison(s, rng)
    s.solve(solution_field=first, rhs_field=np.zeros(shape, dtype=real_t))  # reuse the output array of the earlier solve
    chk.traces += 1
    chk.count(("zero_rhs", shape, real_t.__name__))
    if np.abs(first).max() > tol_for(real_t, 1.0):
        chk.violation({"kind": "poisson_zero_rhs", "dim": D}, f"{D}-D solve {shape} {real_t.__name__} of an identically zero right-hand side into a "
                      f"reused solution array returned max |u| = {np.abs(first).max():.3g} (must be zero: independent of earlier solves)")


def vector_solve(chk, shape, real_t, rng):
    s = solver(shape, 1.0, real_t)
    rhs = rng.integers(-3, 4, (3,) + shape).astype(real_t)
    rhs[int(rng.integers(0, 3))] = 0   # one identically zero component
    out = np.full(rhs.shape, 7.0, dtype=real_t)
    poison(s, rng)
    s.vector_field_solve(solution_vector_field=out, rhs_vector_field=rhs)
    ref = np.zeros_like(rhs)
    for k in range(3):
        poison(s, rng)
        s.solve(solution_field=ref[k], rhs_field=rhs[k])
    chk.traces += 1
    chk.count(("vector", shape, real_t.__name__))
    if not np.array_equal(out, ref):
        chk.violation({"kind": "poisson_vector"}, f"vector_field_solve {shape} {real_t.__name__} differs from three scalar solves (max {np.abs(out - ref).max()})")


def run(chk: core.Check):
    shim.install()
    shim.set_backend("compile")
    quick = chk.tier == "quick"
    rng = np.random.default_rng(chk.seed)
    mshapes = [[4], [3, 3], [2, 2, 3]] if quick else [[4], [5], [3, 3], [3, 4], [2, 2, 3], [2, 3, 3]]
    for shape in mshapes:
        res = tlc.run_wrapped("Poisson", dict(BASE, Shape=shape), INV, raw={"StaleVals": "{-1, 1}"}, timeout=2400)
        chk.add_tlc(f"Poisson{shape}", res)
    for k, v in (("ResetBeforeCopy", False), ("Corner", "high"), ("Reflect", "none"), ("SkipZeroRhs", True)):
        res = tlc.run_wrapped("Poisson", dict(BASE, Shape=[3, 3], **{k: v}), INV, raw={"StaleVals": "{-1, 1}"}, timeout=600)
        chk.add_tlc(f"control {k}={v}", res, expect_violation="FreeSpace")
    # emission: behaviours (sequences of two solves) on the shapes the replay uses
    eshapes = [[3, 4], [2, 3, 2]] if quick else [[3, 4], [4, 3], [5, 2], [2, 3, 2], [3, 2, 3]]
    for shape in eshapes:
        res = tlc.run_wrapped("Poisson", dict(BASE, Shape=shape, RhsSet="dense", MaxSolves=2),
                              "SPECIFICATION Spec\nINVARIANT FreeSpace\nACTION_CONSTRAINT EmitStep\nCHECK_DEADLOCK FALSE\n",
                              raw={"StaleVals": "{1}"}, mode="simulate", simulate={"num": 12 if quick else 60, "depth": 8}, seed=chk.seed, timeout=900)
        chk.add_tlc(f"emit Poisson{shape}", res)
        seen = set()
        for e in res.emits:
            key = tlc.canon([e["rhs"], e["n"]])
            if key in seen:
                continue
            seen.add(key)
            for real_t in (np.float64, np.float32):
                for xr in (1.0, 0.75 * shape[-1]):
                    replay(chk, e, real_t, xr, rng)
            if len(chk.samples) < 2:
                chk.sample({"shape": e["shape"], "rhs": e["rhs"][:4], "sol_first_cell": e["sol"][0]})
    # measured kernels of the real solvers
    if quick:
        kshapes = [(2, 2), (3, 5), (4, 4), (5, 2), (7, 3), (2, 3, 2), (3, 2, 4)]
    else:
        kshapes = [s for s in itertools.product(range(2, 8), repeat=2)] + [(2, 2, 2), (2, 3, 2), (3, 2, 4), (4, 5, 6), (3, 3, 3), (5, 4, 2)] + [(12, 9), (16, 24)]
    for shape in kshapes:
        for real_t in (np.float64, np.float32):
            for xr in ((1.0,) if quick else (1.0, 2.0, 0.5 * shape[-1])):
                measured_kernel(chk, shape, xr, real_t, rng)
    for shape in [(2, 3, 4)] + ([] if quick else [(4, 4, 4), (3, 5, 2)]):
        for real_t in (np.float64, np.float32):
            vector_solve(chk, shape, real_t, rng)
    for shape in [(3, 4), (2, 3, 4)] + ([] if quick else [(5, 5), (4, 3, 3)]):
        for real_t in (np.float64, np.float32):
            zero_rhs(chk, shape, real_t, rng)
    chk.assumptions += [
        "the solve is linear in the right-hand side and in the stale buffer contents: unit impulses and single stale cells cover all "
        "contents in the model; the code is driven with impulses at EVERY cell (measured kernel) and dense integer fields",
        "Green's-function samples are evaluated by the harness from the documented closed forms (-ln r / 2 pi with the documented "
        "self-cell term in 2-D, 1 / 4 pi r with 1 / 4 pi h in 3-D); comparison at 5e-12 (double) / 2e-4 (single) relative to the largest term",
        "FFTW and the pystencils element-wise kernels are exercised, not proved; all three public work buffers are overwritten with "
        "garbage before every solve",
    ]
    return ("case = one solve of a TLC-generated sequence per precision and domain length, plus measured-kernel matrices (all cell "
            "pairs) per shape/precision/domain length and vector solves")
