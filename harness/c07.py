"""C07 -- spreading is the adjoint of interpolation; force and torque are conserved.

TLC: spec/Interp.tla -- Spread is an ACCUMULATING action; after the spreads 1, 2, 1 of two markers
(overlapping / identical supports included) the adjoint identity, force conservation and (Peskin)
torque conservation hold for all lattice positions; the "assign" variant is refuted.  Binding:
behaviours emitted by TLC are replayed into the real kernels (the spread field is predicted as a
symbolic sum of kernel samples, evaluated with the documented closed forms), and both sides of the
adjoint identity are computed from the code's own outputs on random fields and marker sets."""
from __future__ import annotations

import numpy as np

from . import core, interp, shim, tlc
from .c06 import model

INV7 = "SPECIFICATION Spec\nINVARIANT Adjoint\nINVARIANT ForceConserved\nINVARIANT TorqueConserved\nCHECK_DEADLOCK FALSE\n"


def replay_emit(chk, e, D, M, kind, real_t, h):
    """two markers on the lattice, spreads in the emitted order with unit force on marker mf."""
    mk = e["mk"]
    N = 2
    # the model's grid is small and cubic; the real grid is NON-cubic (nz, ny, nx) and the whole configuration is translated
    # (the operators are translation invariant) by `shift` cells per physical axis, alternately to the near and the far end
    gshape = (9, 14) if D == 2 else (8, 11, 15)          # array order (.., y, x)
    far = (sum(m["i"][0] for m in mk) + e["mf"]) % 2 == 0
    shift = [(gshape[D - 1 - k] - 7) if far else 0 for k in range(D)]   # physical axis k lives on array axis D-1-k
    # the grid origin is a parameter of the operators (cell centres at i h + sfrac h; the simulators use sfrac = 1/2)
    sfrac = (0.5, 0.0, -1.75)[(sum(m["i"][-1] for m in mk) + e["mf"]) % 3]
    pos = np.empty((D, N), dtype=real_t)
    for n, m in enumerate(mk):
        for k in range(D):
            pos[k, n] = real_t((m["i"][k] + shift[k] + m["r"][k] / M) * h + sfrac * h)
    c = interp.comm(D, h, N, real_t, kind, 1, sfrac)
    idx, w = interp.support_and_weights(c, pos, D, real_t)
    F = np.zeros(N, dtype=real_t)
    F[e["mf"] - 1] = 1
    eul = np.zeros(gshape, dtype=real_t)
    # the real kernel spreads ALL markers of the set per call; the emitted order 1,2,1 with a unit force on one
    # marker is realised by calling it once per entry of the order with only that marker's force switched on
    for m in e["order"]:
        Fm = np.zeros(N, dtype=real_t)
        Fm[m - 1] = F[m - 1]
        c.lagrangian_to_eulerian_grid_interpolation_kernel(eul_grid_field=eul, lag_grid_field=Fm, interp_weights=w, nearest_eul_grid_index_to_lag_grid=idx)
    phi = interp.PHI[kind]
    want = np.zeros(gshape)
    for cell in e["cells"]:
        v = 0.0
        for t in cell["w"]:
            m = mk[t["m"] - 1]
            wv = 1.0
            for k in range(D):
                # distance (cell - marker)/h for slot j along physical axis k (the model may have taken the
                # shifted floor on a cell centre: its window then starts one cell earlier)
                d = t["j"][k] - m["r"][k] / M - (1 if m["sh"][k] else 0)
                wv *= phi(d) / h
            v += t["n"] * wv
        # spec cells are indexed by physical axis (x first); arrays are (.., y, x)
        want[tuple(reversed([ci + sh for ci, sh in zip(cell["c"], shift)]))] = v
    eps = float(np.finfo(real_t).eps)
    d = np.abs(eul.astype(float) - want).max()
    if d > 64 * eps / h**D:
        return f"spread field differs from the sum of kernel samples by {d:.3g}"
    return None


def adjoint_on_code(chk, D, kind, real_t, h, rng, N, ncomp, clustered):
    sfrac = (0.5, 0.0 if real_t is np.float64 else -2.25)[int(rng.integers(0, 2))]       # grid origin (see replay_emit)
    W = 2                     # half-width of the support window (the only width the kernels accept)
    gshape = [(9, 17), (16, 10)][int(rng.integers(0, 2))] if D == 2 else [(8, 11, 17), (16, 9, 8), (9, 15, 10)][int(rng.integers(0, 3))]
    ext = np.array([gshape[D - 1 - k] for k in range(D)])       # extent per PHYSICAL axis (x first)
    c = interp.comm(D, h, N, real_t, kind, ncomp, sfrac, W)
    if clustered:
        base = np.array([rng.integers(W, n - W - 1) for n in ext])
        # half of the clustered cases sit at the far end of every axis
        if rng.random() < 0.5:
            base = ext - W - 2
        pos = ((base[:, None] + rng.random((D, N))) * h + sfrac * h).astype(real_t)
        pos[:, -1] = pos[:, 0]  # a duplicated marker
    else:
        cells = np.stack([rng.integers(W, n - W - 1, N) for n in ext])
        cells[:, 0] = ext - W - 2                                 # one marker as far along every axis as admissible
        pos = ((cells + rng.random((D, N))) * h + sfrac * h).astype(real_t)
    idx, w = interp.support_and_weights(c, pos, D, real_t, W)
    shape = ((ncomp,) if ncomp > 1 else ()) + tuple(gshape)
    u = rng.integers(-4, 5, shape).astype(real_t)
    F = rng.integers(-4, 5, ((ncomp, N) if ncomp > 1 else (N,))).astype(real_t)
    Iu = np.zeros_like(F)
    c.eulerian_to_lagrangian_grid_interpolation_kernel(lag_grid_field=Iu, eul_grid_field=u, interp_weights=w, nearest_eul_grid_index_to_lag_grid=idx)
    pre = rng.integers(-2, 3, shape).astype(real_t)  # the target already holds something: spreading must ADD
    SF = pre.copy()
    c.lagrangian_to_eulerian_grid_interpolation_kernel(eul_grid_field=SF, lag_grid_field=F, interp_weights=w, nearest_eul_grid_index_to_lag_grid=idx)
    c.lagrangian_to_eulerian_grid_interpolation_kernel(eul_grid_field=SF, lag_grid_field=F, interp_weights=w, nearest_eul_grid_index_to_lag_grid=idx)
    spread = (SF.astype(float) - pre.astype(float)) / 2  # two identical calls add up
    eps = float(np.finfo(real_t).eps)
    errs = []
    lhs = float((F.astype(float) * Iu.astype(float)).sum())
    rhs = float((spread * u.astype(float)).sum() * h**D)
    scale = float(np.abs(F).sum() * np.abs(u).max()) + 1
    if abs(lhs - rhs) > 64 * eps * scale:
        errs.append(f"adjoint identity: sum F.(I u) = {lhs!r} but sum (S F).u h^D = {rhs!r}")
    tot = spread.reshape(ncomp if ncomp > 1 else 1, -1).sum(axis=1) * h**D
    Ft = F.astype(float).reshape(ncomp if ncomp > 1 else 1, -1).sum(axis=1)
    if np.abs(tot - Ft).max() > 64 * eps * (np.abs(F).sum() + 1):
        errs.append(f"grid integral of the spread force {tot} != total marker force {Ft}")
    if kind == "peskin":
        for k in range(D):
            ax = D - 1 - k
            sh = [1] * D
            sh[ax] = gshape[ax]
            coord = ((np.arange(gshape[ax]) + sfrac) * h).reshape(sh)
            sp = spread.reshape((ncomp if ncomp > 1 else 1,) + tuple(gshape))
            mom = (sp * coord).reshape(sp.shape[0], -1).sum(axis=1) * h**D
            want = (F.astype(float).reshape(sp.shape[0], -1) * pos[k].astype(float)).sum(axis=1)
            if np.abs(mom - want).max() > 256 * eps * (np.abs(F).sum() + 1) * max(gshape) * h:
                errs.append(f"first moment of the spread force along axis {k}: {mom} != {want}")
    return errs


def serial_spreading():
    """spreading accumulates, so it must run in a fixed serial marker order: no numba parallel target."""
    import importlib

    m2 = importlib.import_module("sopht.numeric.immersed_boundary_ops.EulerianLagrangianGridCommunicator2D")
    m3 = importlib.import_module("sopht.numeric.immersed_boundary_ops.EulerianLagrangianGridCommunicator3D")

    bad = []
    for mod, D in ((m2, 2), (m3, 3)):
        for ncomp in (1, D):
            for nmark in (2, 300, 5000, 70000):      # small bodies, rods, dense surface grids
                f = getattr(mod, f"generate_lagrangian_to_eulerian_grid_interpolation_kernel_{D}d")(num_lag_nodes=nmark, interp_kernel_width=2, n_components=ncomp)
                opts = getattr(f, "targetoptions", {})
                if opts.get("parallel"):
                    bad.append((D, ncomp, nmark))
    return bad


def run(chk: core.Check):
    shim.install()
    quick = chk.tier == "quick"
    rng = np.random.default_rng(chk.seed)
    for kind in ("cosine", "peskin"):
        model(chk, 2, 4, kind, inv=INV7, name=f"Interp adjoint D=2 {kind}")
    model(chk, 3, 2, "peskin", inv=INV7, name="Interp adjoint D=3 peskin")
    if not quick:
        model(chk, 3, 2, "cosine", inv=INV7, name="Interp adjoint D=3 cosine")
    model(chk, 2, 4, "peskin", mode="assign", inv=INV7, expect="Adjoint", name="control spread assigns instead of accumulating")
    # ---- replay of emitted behaviours -----------------------------------------------------------
    for D, M in ((2, 4), (3, 2)):
        for kind in ("cosine", "peskin"):
            c = {"D": D, "M": M, "S": 1 << 8, "Tab": interp.table(kind, M, 1 << 8), "FirstMoment": kind == "peskin",
                 "NGrid": 7 if D == 2 else 6, "SpreadMode": "accumulate", "CuLo": 2, "CuHi": 3}
            res = tlc.run_wrapped("Interp", c, "SPECIFICATION Spec\nACTION_CONSTRAINT EmitLast\nCHECK_DEADLOCK FALSE\n",
                                  raw={"Offsets2": "{<<0,0>>, <<0,1>>, <<1,1>>}" if D == 2 else "{<<0,0,0>>, <<0,1,1>>}"},
                                  mode="simulate", simulate={"num": 40 if quick else 300, "depth": 6}, seed=chk.seed, timeout=900)
            chk.add_tlc(f"emit Interp D={D} {kind}", res)
            for e in res.emits:
                for real_t in (np.float64, np.float32):
                    try:
                        err = replay_emit(chk, e, D, M, kind, real_t, 0.5)
                    except Exception as ex:
                        err = f"exception {type(ex).__name__}: {ex}"
                    chk.traces += 1
                    chk.count((D, kind, real_t.__name__, tlc.canon(e["mk"]), e["mf"]))
                    if err:
                        chk.violation({"kind": "spread", "kernel": kind, "dim": D}, f"{D}-D {kind} {real_t.__name__} markers {e['mk']} forced marker {e['mf']}: {err}")
                if len(chk.samples) < 3:
                    chk.sample({"markers": e["mk"], "forced": e["mf"], "order": e["order"], "cells": e["cells"][:2]})
    # ---- the adjoint identity on the code's own outputs ------------------------------------------
    reps = 6 if quick else 60
    for D in (2, 3):
        for kind in ("cosine", "peskin"):
            for real_t in (np.float64, np.float32):
                for ncomp in (1, D):
                    for N in ((4,) if quick else (1, 4, 7)):
                        for clustered in (False, True):
                            for _ in range(reps):
                                try:
                                    errs = adjoint_on_code(chk, D, kind, real_t, 0.25, rng, N, ncomp, clustered)
                                except Exception as ex:
                                    errs = [f"exception {type(ex).__name__}: {ex}"]
                                chk.traces += 1
                                chk.count((D, kind, real_t.__name__, ncomp, N, clustered, chk.evaluations))
                                for er in errs[:2]:
                                    chk.violation({"kind": "adjoint", "kernel": kind, "dim": D},
                                                  f"{D}-D {kind} {real_t.__name__} components={ncomp} markers={N} clustered={clustered}: {er}")
    bad = serial_spreading()
    chk.traces += 1
    if bad:
        chk.violation({"kind": "parallel_spread"}, f"spreading kernels request numba parallel execution: {bad}")
    chk.assumptions += [
        "both sides of the identities are bilinear in (u, F): the model checks them on unit impulses of u and F for all lattice "
        "positions of two markers (same cell, adjacent cell, diagonal), the code on random integer fields / marker sets",
        "predicted spread fields are sums of kernel samples evaluated from the documented closed forms (64 eps / h^D)",
        "duplicated and clustered markers included; targets pre-filled (spreading must add); two successive calls must add up",
    ]
    return ("case = TLC-emitted two-marker behaviour x precision, and random marker sets (scalar/vector, clustered/duplicated) x kernel "
            "x precision x dimension with the identities evaluated on the code's outputs")
