"""X01 -- extended specification coverage, not tied to one listed property: the argument contracts of the
public constructors and generators (spec/Validation.tla) replayed against the real API.
Run with `./check X01`; not registered in MANIFEST.json (every registered check decides a listed property)."""
from __future__ import annotations

import numpy as np

from . import core, shim, tlc


def representative(api, cls):
    """-> callable performing the real call for this argument class."""
    import elastica as ea
    import sopht.numeric.eulerian_grid_ops as spne
    import sopht.simulator as sps
    import sopht.utils as spu
    from sopht.numeric.immersed_boundary_ops import (EulerianLagrangianGridCommunicator2D, EulerianLagrangianGridCommunicator3D,
                                                      VirtualBoundaryForcing)

    rt = np.float64
    if api == "set_fixed_val_at_boundaries":
        kw = {"width_positive_int": dict(width=2), "width_zero": dict(width=0), "width_negative": dict(width=-1), "width_float": dict(width=1.5),
              "field_type_invalid": dict(width=1, field_type="tensor")}[cls]
        return lambda: [g(real_t=rt, **kw) for g in (spne.gen_set_fixed_val_at_boundaries_pyst_kernel_2d, spne.gen_set_fixed_val_at_boundaries_pyst_kernel_3d)]
    if api == "penalise_field_boundary":
        w = {"width_zero": 0, "width_positive_int": 2, "width_negative": -1, "width_float": 1.5}[cls]
        x = np.zeros((6, 6))
        x3 = np.zeros((6, 6, 6))
        return lambda: [spne.gen_penalise_field_boundary_pyst_kernel_2d(width=w, dx=0.5, x_grid_field=x, y_grid_field=x, real_t=rt),
                        spne.gen_penalise_field_boundary_pyst_kernel_3d(width=w, dx=0.5, x_grid_field=x3, y_grid_field=x3, z_grid_field=x3, real_t=rt)]
    if api == "laplacian_filter":
        b = np.zeros((5, 5, 5))
        kw = {"order_positive": dict(filter_order=2), "order_negative": dict(filter_order=-1), "order_float": dict(filter_order=1.5),
              "filter_type_invalid": dict(filter_order=1, filter_type="sharp"), "field_type_invalid": dict(filter_order=1, field_type="tensor"),
              "boundary_width_zero": dict(filter_order=1, filter_flux_buffer_boundary_width=0)}[cls]
        return lambda: spne.gen_laplacian_filter_kernel_3d(filter_flux_buffer=b, field_buffer=b.copy(), real_t=rt, **kw)
    if api == "elementwise":
        ft = {"field_type_scalar": "scalar", "field_type_vector": "vector", "field_type_invalid": "tensor"}[cls]
        return lambda: [g(real_t=rt, field_type=ft) for g in (spne.gen_elementwise_sum_pyst_kernel_2d, spne.gen_elementwise_sum_pyst_kernel_3d,
                                                             spne.gen_elementwise_saxpby_pyst_kernel_2d, spne.gen_set_fixed_val_pyst_kernel_3d,
                                                             spne.gen_add_fixed_val_pyst_kernel_2d)]
    if api == "precision":
        return lambda: spu.get_real_t({"single": "single", "double": "double", "other": "quad"}[cls])
    if api == "pyst_dtype":
        return lambda: spu.get_pyst_dtype({"float32": np.float32, "float64": np.float64, "int": np.int32}[cls])
    if api == "passive_simulator":
        kw = {"scalar_2d": dict(grid_dim=2, grid_size=(5, 6), field_type="scalar"), "vector_3d": dict(grid_dim=3, grid_size=(5, 5, 6), field_type="vector"),
              "vector_2d": dict(grid_dim=2, grid_size=(5, 6), field_type="vector"), "field_type_invalid": dict(grid_dim=2, grid_size=(5, 6), field_type="tensor"),
              "grid_dim_4": dict(grid_dim=4, grid_size=(5, 5, 5, 5), field_type="scalar")}[cls]
        return lambda: sps.PassiveTransportFlowSimulator(kinematic_viscosity=0.1, x_range=1.0, real_t=rt, **kw)
    if api == "ns3d_simulator":
        st = {"solver_greens": "greens_function_convolution", "solver_fast_diag": "fast_diagonalisation", "solver_invalid": "multigrid"}[cls]
        return lambda: sps.UnboundedNavierStokesFlowSimulator3D(grid_size=(5, 5, 6), x_range=1.0, kinematic_viscosity=0.1, real_t=rt, poisson_solver_type=st)
    if api == "create_flow_simulator":
        ft = {"navier_stokes": "navier_stokes", "navier_stokes_with_forcing": "navier_stokes_with_forcing", "flow_type_invalid": "euler"}[cls]

        def f():
            a = sps.create_unbounded_flow_simulator_2d(grid_size=(6, 7), x_range=1.0, kinematic_viscosity=0.1, flow_type=ft, real_t=rt)
            b = sps.create_unbounded_flow_simulator_3d(grid_size=(5, 5, 6), x_range=1.0, kinematic_viscosity=0.1, flow_type=ft, real_t=rt)
            want = ft.endswith("with_forcing")
            if a.with_forcing != want or b.with_forcing != want or hasattr(a, "eul_grid_forcing_field") != want:
                raise AssertionError("forwarding function does not map the flow type onto the forcing flag")
        return f
    if api == "virtual_boundary_forcing":
        d = {"grid_dim_2": 2, "grid_dim_3": 3, "grid_dim_1": 1}[cls]
        return lambda: VirtualBoundaryForcing(1.0, 1.0, d, 0.5, 2, rt)
    if api == "communicator":
        kw = {"kernel_cosine": dict(interp_kernel_type="cosine"), "kernel_peskin": dict(interp_kernel_type="peskin"), "kernel_invalid": dict(interp_kernel_type="gauss"),
              "kernel_width_3": dict(interp_kernel_width=3), "n_components_invalid": dict(n_components=5)}[cls]
        base = dict(dx=0.5, eul_grid_coord_shift=0.25, num_lag_nodes=2, interp_kernel_width=2, real_t=rt)
        base.update(kw)
        return lambda: [EulerianLagrangianGridCommunicator2D(**base), EulerianLagrangianGridCommunicator3D(**base)]
    if api == "forcing_grid":
        cyl = ea.Cylinder(np.zeros(3), np.array([0.0, 0.0, 1.0]), np.array([1.0, 0.0, 0.0]), 1.0, 0.2, density=1e3)
        sph = ea.Sphere(center=np.zeros(3), base_radius=0.2, density=1e3)
        rod = ea.CosseratRod.straight_rod(3, np.zeros(3), np.array([1.0, 0.0, 0.0]), np.array([0.0, 1.0, 0.0]), 1.0, 0.05, density=1e3,
                                          youngs_modulus=1e6, shear_modulus=1e6 / 1.5)
        d = 2 if cls.endswith("dim2") else 3
        if cls.startswith("cylinder2d"):
            return lambda: sps.CircularCylinderForcingGrid(grid_dim=d, rigid_body=cyl, num_forcing_points=8)
        if cls.startswith("sphere"):
            return lambda: sps.SphereForcingGrid(grid_dim=d, rigid_body=sph, num_forcing_points_along_equator=6)
        if cls.startswith("rod_edge"):
            return lambda: sps.CosseratRodEdgeForcingGrid(grid_dim=d, cosserat_rod=rod)
        return lambda: sps.CosseratRodSurfaceForcingGrid(grid_dim=d, cosserat_rod=rod, surface_grid_density_for_largest_element=6)
    if api == "io":
        def f():
            if cls == "dim_2":
                return spu.IO(dim=2)
            if cls == "dim_4":
                return spu.IO(dim=4)
            io = spu.IO(dim=2)
            if cls == "grid_args_not_arrays":
                return io.define_eulerian_grid(origin=[0.0, 0.0], dx=[1.0, 1.0], grid_size=[4, 5])
            if cls == "eulerian_field_before_grid":
                return io.add_as_eulerian_fields_for_io(f=np.zeros((4, 5)))
            io.define_eulerian_grid(origin=np.zeros(2), dx=np.ones(2), grid_size=np.array([4, 5]))
            if cls == "eulerian_field_wrong_shape":
                return io.add_as_eulerian_fields_for_io(f=np.zeros((5, 4)))
            if cls == "lagrangian_grid_1d":
                return io.add_as_lagrangian_fields_for_io(lagrangian_grid=np.zeros(4))
            if cls == "lagrangian_grid_wrong_dim":
                return io.add_as_lagrangian_fields_for_io(lagrangian_grid=np.zeros((3, 4)))
            if cls == "lagrangian_field_wrong_shape":
                return io.add_as_lagrangian_fields_for_io(lagrangian_grid=np.zeros((2, 4)), f=np.zeros((3, 5)))
            raise KeyError(cls)
        return f
    raise KeyError(api)


def run(chk: core.Check):
    shim.install()
    shim.set_backend("compile")
    res = tlc.run_wrapped("Validation", {}, "SPECIFICATION Spec\nINVARIANT Functional\nINVARIANT NonVacuous\nCONSTRAINT EmitState\n", workers=1, timeout=300)
    chk.add_tlc("Validation table", res)
    for e in tlc.dedupe(res.emits, lambda e: [e["api"], e["cls"]]):
        try:
            representative(e["api"], e["cls"])()
            got = "ok"
        except (ValueError, TypeError, AssertionError) as ex:
            got = type(ex).__name__
        except Exception as ex:
            got = "other:" + type(ex).__name__ + ":" + str(ex)[:120]
        chk.traces += 1
        chk.count((e["api"], e["cls"]))
        if got != e["outcome"]:
            chk.violation({"kind": "validation", "api": e["api"], "cls": e["cls"]},
                          f"{e['api']} with argument class {e['cls']}: real API outcome {got}, specification {e['outcome']}")
        chk.sample(e, limit=3)
    chk.assumptions.append("one representative argument per class; compat shim in place")
    return "case = (public constructor/generator, argument class) of the Validation decision table"
