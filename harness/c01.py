"""C01 -- a flow time step realises the documented vorticity-velocity discretisation.

TLC: spec/FlowStep.tla -- the step machine (one action per kernel call, scratch buffers with
arbitrary contents) equals RefStep (the documented operator sequence) on simulated behaviours,
for every simulator/configuration; time advances by dt; forcing is zero on return.  Binding: the
emitted states are loaded into the real simulator classes (public arrays + time_step only) with
all scratch / solver buffers poisoned; the vorticity is compared with the model's exact pipeline
result (damping evaluated from the symbolic model of MC_Stabilisers), the velocity with an
independent reference of solve + curl + free stream built from the documented closed forms."""
from __future__ import annotations

import itertools

import numpy as np

from . import core, flowstep, shim, tlc


def configs(quick):
    base2 = (8, 10)
    base3 = (6, 7, 8)
    if quick:
        return [
            {"sim": "ns2", "shape": base2, "forcing": True, "free_stream": True, "w": 2, "h": 2.0, "dt": 8.0, "rho": 2.0, "nu": 0.5},
            {"sim": "ns2", "shape": (9, 8), "forcing": False, "free_stream": True, "w": 1, "h": 0.5, "dt": 1.0, "nu": 0.25},
            {"sim": "ns2", "shape": (8, 9), "forcing": False, "free_stream": False, "w": 0, "h": 1.0, "dt": 2.0, "nu": 0.5},
            {"sim": "ns3", "shape": base3, "forcing": True, "free_stream": True, "filter": "multiplicative", "order": 2, "w": 2,
             "h": 0.5, "dt": 1.0, "rho": 0.5, "nu": 0.25},
            # every pair (forcing, free stream) occurs per simulator class: the step paths differ per option combination
            {"sim": "ns3", "shape": (7, 6, 6), "forcing": False, "free_stream": True, "filter": "convolution", "order": 1, "w": 0,
             "solver": "fast_diagonalisation", "h": 2.0, "dt": 4.0, "nu": 1.0},
            {"sim": "ns3", "shape": (6, 6, 7), "forcing": True, "free_stream": False, "filter": "off", "order": 1, "w": 1,
             "h": 1.0, "dt": 2.0, "rho": 0.5, "nu": 0.5},
            {"sim": "pt_scalar", "shape": (7, 9), "h": 0.25, "dt": 0.5, "nu": 0.125},
            {"sim": "pt_vector", "shape": (6, 7, 6), "h": 2.0, "dt": 4.0, "nu": 2.0},
            # the OpenMP path of the simulators (num_threads > 1)
            {"sim": "ns2", "shape": (9, 11), "forcing": True, "free_stream": False, "w": 3, "h": 0.5, "dt": 2.0, "rho": 2.0, "nu": 0.125, "threads": 4},
        ]
    out = []
    for forcing, fs, w in itertools.product((False, True), (False, True), (0, 1, 2, 3, 4)):
        h = [0.5, 1.0, 2.0][w % 3]
        out.append({"sim": "ns2", "shape": (10, 11) if w > 2 else base2, "forcing": forcing, "free_stream": fs, "w": w, "h": h,
                    "dt": 4.0 * h, "rho": 2.0 if w % 2 else 0.5, "nu": 0.25 * h})
    filt = [("off", 1)] + [(t, n) for t in ("multiplicative", "convolution") for n in (1, 2, 3)]
    i = 0
    for forcing, fs, (ft, n), solver in itertools.product((False, True), (False, True), filt, ("greens_function_convolution", "fast_diagonalisation")):
        w = i % 5
        i += 1
        shape = (9, 9, 10) if (w > 2 or n > 2) else base3
        h = [2.0, 0.5, 1.0][i % 3]
        out.append({"sim": "ns3", "shape": shape, "forcing": forcing, "free_stream": fs, "filter": ft, "order": n, "w": w, "solver": solver,
                    "h": h, "dt": 2.0 * h, "rho": 0.5 if i % 2 else 1.0, "nu": [0.5, 1.0][i % 2] * h})
    out += [{"sim": "pt_scalar", "shape": (7, 9)}, {"sim": "pt_scalar", "shape": (6, 7, 8)}, {"sim": "pt_vector", "shape": (6, 7, 6)},
            {"sim": "pt_scalar", "shape": (9, 7), "h": 0.5, "dt": 2.0, "nu": 0.125}]
    return out


def small_step_laws(chk, rng, quick):
    """Steps of very different and of nearly equal size on ONE simulator object from one state: the documented explicit step is
    state + dt * RHS + O(dt^2), so the increment doubles with dt, and a step does not remember the steps before it."""
    shim.set_backend("compile")
    plans = [({"sim": "ns2", "shape": (8, 10), "forcing": True, "free_stream": True, "w": 2, "h": 2.0, "rho": 2.0, "nu": 0.5}, np.float32),
             ({"sim": "ns3", "shape": (6, 7, 8), "forcing": True, "free_stream": True, "filter": "multiplicative", "order": 2, "w": 2, "h": 0.5, "rho": 0.5, "nu": 0.25}, np.float32),
             ({"sim": "pt_scalar", "shape": (7, 9), "h": 0.25, "nu": 0.125}, np.float32),
             ({"sim": "ns2", "shape": (9, 8), "forcing": False, "free_stream": True, "w": 1, "h": 0.5, "nu": 0.25}, np.float64)]
    for cfg, real_t in plans[: 3 if quick else 4]:
        sim = flowstep.get_sim(cfg, real_t)
        D = len(cfg["shape"])
        prim = sim.primary_field if cfg["sim"].startswith("pt") else sim.vorticity_field
        m = 2
        core_ = (Ellipsis,) + tuple(slice(m, -m) for _ in range(D))
        s0 = np.zeros(prim.shape)
        s0[core_] = rng.normal(size=s0[core_].shape)
        v0 = rng.normal(size=sim.velocity_field.shape)

        def step(dt):
            prim[...] = s0
            sim.velocity_field[...] = v0
            if cfg.get("forcing"):
                sim.eul_grid_forcing_field[...] = 0
            if cfg.get("free_stream"):
                sim.time_step(dt=real_t(dt), free_stream_velocity=np.zeros(D))
            else:
                sim.time_step(dt=real_t(dt))
            return prim.astype(np.float64) - s0.astype(real_t).astype(np.float64)

        base, f = 2.0**-10, 1 + 2.0**-11
        dA = step(base)
        dB = step(2 * base)
        dC = step(base * f)                      # dt = 2^-10 (1 + 2^-11)
        dA2 = step(base)                         # differs from the previous dt by 4.8e-7 only
        chk.traces += 1
        chk.count(("small steps", cfg["sim"], real_t.__name__))
        nA = np.abs(dA).max()
        errs = []
        if nA == 0:
            raise core.MachineryError(f"small-step check: the state of {cfg} does not move")
        if not np.array_equal(dA2, dA):
            errs.append(f"the same step (dt = 2^-10) from the same state gives another result after steps with dt = 2^-9 and 2^-10 (1 + 2^-11): max difference {np.abs(dA2 - dA).max():.3g} (increment {nA:.3g})")
        # (filters and boundary damping act once per step whatever dt: the linearity laws apply to configurations without them)
        linear = cfg.get("filter", "off") == "off" and (cfg["sim"].startswith("pt") or cfg.get("w", 2) == 0)
        if linear and np.abs(dB - 2 * dA).max() > 0.05 * nA:
            errs.append(f"doubling dt (2^-10 -> 2^-9) does not double the increment: max |d(2 dt) - 2 d(dt)| = {np.abs(dB - 2 * dA).max():.3g}, increment {nA:.3g}")
        if linear and np.abs(dC - f * dA).max() > 0.0002 * nA + 16 * float(np.finfo(real_t).eps) * np.abs(s0).max():
            errs.append(f"dt larger by the factor 1 + 2^-11 does not enlarge the increment accordingly: max deviation {np.abs(dC - (1 + 2.0**-6) * dA).max():.3g}, increment {nA:.3g}")
        for er in errs[:2]:
            chk.violation({"kind": "small_steps", "sim": cfg["sim"]}, f"{cfg} ({real_t.__name__}): {er}")


def run(chk: core.Check):
    shim.install()
    quick = chk.tier == "quick"
    rng = np.random.default_rng(chk.seed)
    cfgs = configs(quick)
    # the same simulator OBJECTS again with another step size, then with the first one again (get_sim caches objects per configuration
    # without dt): a step must not depend on the dt, free stream or fields of the steps before it
    again = [c for c in cfgs if c["sim"] in ("ns2", "ns3", "pt_scalar") and "dt" in c and "threads" not in c][: 3 if quick else 8]
    cfgs = cfgs + [dict(c, dt=2 * c["dt"]) for c in again] + [dict(c) for c in again]
    nsteps = 2 if quick else 3
    for ci, cfg in enumerate(cfgs):
        if not quick and cfg["sim"] == "ns3" and ci % 2 == chk.seed % 2 and cfg.get("filter", "off") != "off" and cfg.get("order", 1) == 3:
            continue  # order-3 filters on the larger grid: every other one per seed
        try:
            emits = flowstep.emit_steps(chk, cfg, nsteps, chk.seed + ci)
        except core.MachineryError:
            raise
        for e in emits:
            precisions = (np.float64, np.float32) if (quick or ci % 3 == 0) else (np.float64,)
            for real_t in precisions:
                try:
                    errs = flowstep.replay_step(chk, cfg, e, real_t, rng)
                except core.MachineryError:
                    raise
                except Exception as ex:
                    errs = [f"exception {type(ex).__name__}: {ex}"]
                    chk.traces += 1
                    chk.violation({"kind": "step_exception", "sim": cfg["sim"], "zone_width": cfg.get("w", 2)},
                                  f"time_step of {cfg} ({real_t.__name__}) raised {type(ex).__name__}: {ex}")
                    continue
                chk.traces += 1
                chk.count((tlc.canon({k: (list(v) if isinstance(v, tuple) else v) for k, v in cfg.items()}), real_t.__name__, tlc.canon(e["om0"])[:48]))
                for er in errs[:3]:
                    chk.violation({"kind": "step", "sim": cfg["sim"], "what": er.split(" ")[0]},
                                  f"{cfg} ({real_t.__name__}): {er}", {"cfg": {k: (list(v) if isinstance(v, tuple) else v) for k, v in cfg.items()}, "emit": e, "error": er})
            if len(chk.samples) < 3:
                chk.sample({"cfg": {k: (list(v) if isinstance(v, tuple) else v) for k, v in cfg.items()}, "scale": e["scale"], "post": e["post"],
                            "om0_first_row": e["om0"][0][0] if cfg["sim"] != "ns3" else e["om0"][0][0][0]})
    small_step_laws(chk, rng, quick)
    for issue in sorted(set(flowstep.CONSTRUCTION_ISSUES)):
        chk.violation({"kind": "construction"}, issue)
    chk.extra["configurations"] = len(cfgs)
    chk.assumptions += [
        "grid spacing h = 1 and integer dt / dyadic viscosity, density: every prefactor is an integer, so the vorticity pipeline is exact "
        "up to the ENO3 thirds (compared at 1e-11 relative in double, 2e-4 in single precision)",
        "velocity recovery is specified as the documented stage list; its numerical reference is built by the harness from closed forms: "
        "damping ramp sin(pi/2 j/w) via the symbolic model of MC_Stabilisers, free-space Green's function by direct O(N^2) summation "
        "(or the dense pseudo-inverse of the documented Neumann Laplacian for the fast-diagonalisation option), central differences",
        "all scratch arrays, the stream function and the Poisson solver's work buffers are overwritten with garbage before every step",
        "behaviours come from TLC's simulation mode (random admissible states; not exhaustive)",
    ]
    return ("case = one time step of one simulator configuration from a TLC-generated state per precision; distinct = distinct "
            "(configuration, precision, initial state)")
