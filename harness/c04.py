"""C04 -- conservation of total vorticity / transported scalar; exact conservation form.

Operator level (this file): spec/MC_Conservation.tla model-checked exhaustively (face identity
over all sign patterns incl. ties, sum laws over unit impulses at every admissible cell x all
velocity patterns the impulse can see), with the margin ("reach of one step") DERIVED by TLC
(smaller margins are refuted) and negative controls.  Cases are replayed into the real kernels:
the conservation form is checked on the code's own outputs (telescoping partial sums must equal
the face flux TLC computed; grid sums must be unchanged).
Step level: harness.flowstep (shared with C01) replays simulator steps on compactly supported
states and checks the sum on the simulator's own arrays."""
from __future__ import annotations

import zlib
from fractions import Fraction

import numpy as np

from . import core, kernels, shim, tlc

INV = "SPECIFICATION Spec\nINVARIANT FaceIdentity\nINVARIANT SumLaw\n"


def mc(chk, name, shape, margin, kinds, variant="doc", expect=None, cfg=INV, uvals="{-1, 0, 1}", emit=None, workers="auto"):
    consts = {"Shape": list(shape), "Margin": margin, "BackVariant": variant, "Kinds": set(kinds),
              "EmitEvery": emit[0] if emit else 1, "EmitPhase": emit[1] if emit else 0}
    res = tlc.run_wrapped("MC_Conservation", consts, cfg, raw={"UVals": uvals}, timeout=1500, workers=workers)
    chk.add_tlc(name, res, expect_violation=expect)
    if expect is None and res.distinct == 0:
        raise core.MachineryError(f"{name}: no states (vacuous instance)")
    return res


def put_line(arr, start, k, vals):
    """write vals along physical axis k starting at (0-based) cell `start`."""
    D = arr.ndim
    ax = D - k
    idx = list(start)
    for n, v in enumerate(vals):
        j = list(idx)
        j[ax] += n
        arr[tuple(j)] = v


def replay_face(e, backend, real_t):
    """Telescoping check on the code's own output: with f, u supported on a 4-cell line, the
    partial sum of the flux kernel's output along the axis up to the examined cell equals the
    front-face flux of that cell (as computed by TLC); the total sum vanishes."""
    shim.set_backend(backend)
    cs = e["cs"]
    D = len(e["shape"])
    k = cs["k"]
    shape = (9,) * (D - 1) + (12,) if k == 1 else tuple(12 if (D - a) == k else 9 for a in range(D))
    f = np.zeros(shape)
    u = np.zeros(shape)
    start = [4] * D
    ax = D - k
    put_line(f, start, k, cs["w"][0])
    put_line(u, start, k, cs["w"][1])
    vel = np.zeros((D,) + shape)
    vel[k - 1] = u
    mk = (lambda a: shim.frac_array(a)) if backend == "exact" else (lambda a: kernels.operand(a, real_t))
    out = mk(np.zeros(shape))
    rt = np.float64 if backend == "exact" else real_t
    one = Fraction(1) if backend == "exact" else real_t(1)
    kernels.gen(f"gen_advection_flux_conservative_eno3_pyst_kernel_{D}d", rt)(
        advection_flux=out, field=mk(f), velocity=mk(vel), inv_dx=one
    )
    # partial sum along the axis through the line, up to and including the examined cell c0 = start+1
    line_idx = list(start)
    sl = [slice(i, i + 1) for i in line_idx]
    sl[ax] = slice(0, start[ax] + 2)
    part = out[tuple(sl)].sum() * 6
    tot = out.sum() * 6
    want = e["front6"]
    tol = 0 if backend == "exact" else 64 * float(np.finfo(real_t).eps) * 6 * 8
    if abs(float(part - want)) > tol:
        return f"partial flux sum up to the face = {float(part)} but face flux (spec) = {want}: not in conservation form"
    if abs(float(tot)) > tol:
        return f"sum of flux divergence over the grid = {float(tot)} != 0 for compact data"
    return None


def replay_sum(e, backend, real_t):
    shim.set_backend(backend)
    cs = e["cs"]
    shape = tuple(e["shape"])
    D = len(shape)
    kind = cs["kind"]
    c0 = tuple(i - 1 for i in cs["c0"])
    mk = (lambda a: shim.frac_array(a)) if backend == "exact" else (lambda a: kernels.operand(a, real_t))
    rt = np.float64 if backend == "exact" else real_t
    three = Fraction(3) if backend == "exact" else real_t(3)
    eps = 0 if backend == "exact" else 64 * float(np.finfo(real_t).eps)
    if kind == "adv":
        k = cs["k"]
        f = np.zeros(shape)
        f[c0] = 1
        vel = np.zeros((D,) + shape)
        w = [cs["w"][str(n)] for n in (-2, -1, 0, 1, 2)]
        st = list(c0)
        st[D - k] -= 2
        put_line(vel[k - 1], st, k, w)
        fld, buf, velv = mk(f), mk(np.full(shape, 9)), mk(vel)
        step = kernels.gen(f"gen_advection_timestep_euler_forward_conservative_eno3_pyst_kernel_{D}d", rt)
        step(field=fld, advection_flux=buf, velocity=velv, dt_by_dx=three)
        s = fld.sum()
        if abs(float(s - 1)) > eps * 40:
            return f"sum after advection step = {float(s)} (was 1)"
        # a second step on the SAME arrays (the flux buffer now holds the first step's fluxes): the sum law holds for any field whose
        # support keeps the margin, which one more step of reach 2 does when the impulse sits at depth >= 2 * margin
        if min(min(c0), min(n - 1 - c for n, c in zip(shape, c0))) >= 8:
            step(field=fld, advection_flux=buf, velocity=velv, dt_by_dx=three)
            s = fld.sum()
            if abs(float(s - 1)) > eps * 4000:
                return f"sum after a second advection step on the same arrays = {float(s)} (was 1)"
        return None
    if kind == "diff":
        f = np.zeros(shape)
        f[c0] = 1
        fld, buf = mk(f), mk(np.full(shape, 9))
        step = kernels.gen(f"gen_diffusion_timestep_euler_forward_pyst_kernel_{D}d", rt)
        step(field=fld, diffusion_flux=buf, nu_dt_by_dx2=three)
        s = fld.sum()
        if abs(float(s - 1)) > eps * 40:
            return f"sum after diffusion step = {float(s)} (was 1)"
        # a second step on the SAME arrays (reach 1 per step: the impulse must sit at depth >= 3 for the sum law to apply again)
        if min(min(c0), min(n - 1 - c for n, c in zip(shape, c0))) >= 3:
            step(field=fld, diffusion_flux=buf, nu_dt_by_dx2=three)
            s = fld.sum()
            if abs(float(s - 1)) > eps * 4000:
                return f"sum after a second diffusion step on the same arrays = {float(s)} (was 1)"
        return None
    if kind == "curl":
        F = np.zeros((D,) + shape)
        F[cs["k"] - 1][c0] = 1
        om = mk(np.zeros(shape if D == 2 else (3,) + shape))
        kernels.gen(f"gen_update_vorticity_from_velocity_forcing_pyst_kernel_{D}d", rt)(
            vorticity_field=om, velocity_forcing_field=mk(F), prefactor=three
        )
        sums = [om.sum()] if D == 2 else [om[j].sum() for j in range(3)]
        bad = [float(x) for x in sums if abs(float(x)) > eps * 40]
        return None if not bad else f"forcing curl changed the vorticity sum by {bad}"
    if kind == "filter":
        f = np.zeros(shape)
        f[c0] = 1
        fld = mk(f)
        b1, b2 = mk(np.full(shape, 5)), mk(np.full(shape, -3))
        kernels.gen("gen_laplacian_filter_kernel_3d", rt, filter_order=cs["k"], filter_flux_buffer=b1, field_buffer=b2,
                    filter_type=cs["w"], _nocache=True)(scalar_field=fld)
        s = fld.sum()
        return None if abs(float(s - 1)) <= eps * 400 else f"sum after {cs['w']} filter of order {cs['k']} = {float(s)} (was 1)"
    raise KeyError(kind)


def stretching_conservation(chk, rng, quick):
    """omega = curl_h(A) with A compact (library curl): sum over the grid of the stretching flux, and of omega after an Euler-forward /
    SSP-RK3 stretching step, per component, is unchanged for ANY velocity field (summation by parts + div_h curl_h = 0, C12)."""
    shim.set_backend("compile")
    for shape in ((9, 10, 12),) + (() if quick else ((12, 9, 10), (10, 12, 9))):
        for rep in range(2 if quick else 6):
            A = np.zeros((3,) + shape)
            inner = (slice(None),) + tuple(slice(3, -3) for _ in range(3))
            A[inner] = rng.integers(-3, 4, A[inner].shape)
            om = np.full((3,) + shape, 9.0)
            kernels.gen("gen_curl_pyst_kernel_3d", np.float64)(curl=om, field=A.copy(), prefactor=np.float64(1))
            u = rng.integers(-4, 5, (3,) + shape).astype(np.float64)           # generic, non-compact
            flux = np.full((3,) + shape, 7.0)
            kernels.gen("gen_vorticity_stretching_flux_pyst_kernel_3d", np.float64)(
                vorticity_stretching_flux_field=flux, vorticity_field=om.copy(), velocity_field=u.copy(), prefactor=np.float64(1))
            chk.traces += 1
            chk.count(("stretch-sum", shape, rep))
            sums = flux.reshape(3, -1).sum(axis=1)
            if np.abs(sums).max() != 0:
                chk.violation({"kind": "stretch", "what": "flux"}, f"stretching flux of omega = curl_h(A), A compact, shape {shape}: component sums {sums.tolist()} (must vanish for any velocity)")
                continue
            for name, extra in (("gen_vorticity_stretching_timestep_euler_forward_pyst_kernel_3d", {}),
                                ("gen_vorticity_stretching_timestep_ssprk3_pyst_kernel_3d", {"midstep_buffer_vector_field": np.full((3,) + shape, 5.0), "_nocache": True})):
                w = om.copy()
                fl = np.full((3,) + shape, -3.0)
                kernels.gen(name, np.float64, **extra)(vorticity_field=w, velocity_field=u.copy(), vorticity_stretching_flux_field=fl, dt_by_2_dx=np.float64(0.5))
                d = (w - om).reshape(3, -1).sum(axis=1)
                if name.endswith("euler_forward_pyst_kernel_3d") and np.abs(d).max() > 1e-9:
                    chk.violation({"kind": "stretch", "what": "step"}, f"Euler-forward stretching step on omega = curl_h(A), shape {shape}: component sums change by {d.tolist()}")


def run(chk: core.Check):
    shim.install()
    tier, seed = chk.tier, chk.seed
    quick = tier == "quick"
    # ---- model checking: intended spec holds; margins are minimal; controls are refuted ----
    mc(chk, "2D face+adv m=4", (10, 11), 4, {"face", "adv"})
    mc(chk, "2D diff+curl m=2", (7, 8), 2, {"diff", "curl"})
    mc(chk, "3D face", (5, 5, 5), 4, {"face"}) if not quick else None
    mc(chk, "3D adv m=4", (9, 9, 10), 4, {"adv"})
    mc(chk, "3D diff+curl m=2", (6, 6, 7), 2, {"diff", "curl"})
    mc(chk, "3D filter m=3", (8, 8, 9), 3, {"filter"})
    mc(chk, "control adv m=3", (10, 11), 3, {"adv"}, expect="SumLaw")
    mc(chk, "control diff m=1", (7, 8), 1, {"diff"}, expect="SumLaw")
    mc(chk, "control curl m=1", (7, 8), 1, {"curl"}, expect="SumLaw")
    mc(chk, "control filter m=2", (8, 8, 9), 2, {"filter"}, expect="SumLaw")
    mc(chk, "control tie variant", (5, 5), 4, {"face"}, variant="ge", expect="FaceIdentity")
    mc(chk, "control ties occur", (5, 5), 4, {"face"}, cfg="SPECIFICATION Spec\nINVARIANT NoTie\n", expect="NoTie")
    chk.extra["derived_margins"] = {"eno3_advection": 4, "diffusion": 2, "forcing_curl": 2, "filter_order_le_2": 3}
    # ---- replay --------------------------------------------------------------------------------
    every = 40 if quick else 6
    emit_cfg = "SPECIFICATION Spec\nCONSTRAINT EmitState\n"
    plans = [((10, 11), 4, {"face"}), ((10, 11), 4, {"adv"}), ((7, 8), 2, {"diff", "curl"}), ((9, 9, 10), 4, {"adv"}),
             ((6, 6, 7), 2, {"diff", "curl"}), ((8, 8, 9), 3, {"filter"})]
    plans.append(((5, 5, 5), 4, {"face"}))
    variants = [("exact", np.float64), ("compile", np.float64)] + ([] if quick else [("compile", np.float32)])
    for shape, m, kinds in plans:
        ev = every * 3 if (quick and len(shape) == 3 and kinds == {"face"}) else every
        if kinds == {"adv"}:
            ev = 7 if quick else 2          # the sum-law cases are few: replay a large share of them
        res = mc(chk, f"emit {shape} {sorted(kinds)}", shape, m, kinds, cfg=emit_cfg, emit=(ev, seed % ev), workers=1)
        if not res.emits:
            raise core.MachineryError(f"no case of kinds {sorted(kinds)} on {shape} was emitted for the replay")
        seen = set()
        for e in res.emits:
            key = tlc.canon(e["cs"])
            if key in seen:
                continue
            seen.add(key)
            is_face = e["cs"]["kind"] == "face"
            if is_face:
                wu = e["cs"]["w"][1]
                if wu[1] + wu[2] == 0:  # upwind tie: emitted always, sub-sampled here
                    K = max(1, every // 4)
                    if zlib.crc32(key.encode()) % K != 0:
                        continue
            for backend, real_t in variants:
                try:
                    err = replay_face(e, backend, real_t) if is_face else replay_sum(e, backend, real_t)
                except Exception as ex:
                    err = f"exception {type(ex).__name__}: {ex}"
                chk.traces += 1
                chk.count((key, shape, backend, real_t.__name__))
                if err:
                    chk.violation(
                        {"kind": e["cs"]["kind"], "dim": len(shape)},
                        f"{e['cs']} shape={shape} backend={backend}/{real_t.__name__}: {err}",
                        {"case": e, "error": err},
                    )
            if len(chk.samples) < 4 and zlib.crc32(key.encode()) % 7 == 0:
                chk.sample(e)
    # ---- step level on the real simulators (compact states; sums on the simulator's own arrays)
    from . import flowstep

    flowstep.conservation_replay(chk)
    stretching_conservation(chk, np.random.default_rng(seed + 17), quick)
    chk.assumptions += [
        "sum laws are linear in the transported field for a frozen velocity: unit impulses at every admissible cell x all "
        "velocity patterns on the cells the impulse can see cover all fields and all velocities with values in {-1,0,1}; "
        "other velocity magnitudes enter bilinearly per upwind branch",
        "margins (reach of one step) are derived by TLC: 4 cells for ENO3 advection, 2 for diffusion and forcing curl, 3 for "
        "filters of order <= 2; smaller margins are refuted (negative controls)",
        "floating-point sums compared within 64 eps times the number of contributing terms; exact-rational replay uses equality",
        "compat shim, exact-rational interpreter and TLC are trusted",
    ]
    return (
        "case = (kind, axis, impulse cell, velocity/field pattern on the stencil line); face cases check the telescoping "
        "identity on the code's own flux output; sum cases check the grid sum; distinct = distinct (case, shape, backend)"
    )
