------------------------------ MODULE FastDiag ------------------------------
(***************************************************************************)
(* C11: the discrete Neumann problem the fast-diagonalisation solvers      *)
(* solve.  A = second-order finite-difference NEGATIVE Laplacian with      *)
(* homogeneous Neumann conditions at the domain faces (a missing           *)
(* neighbour contributes nothing: corner/edge diagonal entries shrink),    *)
(* times h^2.  Facts checked on a basis (unit impulses), hence for all     *)
(* real fields:                                                            *)
(*   - A is symmetric and  <u, A v> = sum over grid edges of du * dv       *)
(*     (so <u, A u> >= 0 with equality only for constants: the null space  *)
(*     is the constants and A x = f - mean(f) has exactly one zero-mean    *)
(*     solution);                                                          *)
(*   - column sums vanish (sum A u = 0: the compatibility condition).      *)
(* Problems with known solution are emitted for the replay:                *)
(*   f = A u + const,  expected solution  u - mean(u).                     *)
(***************************************************************************)
EXTENDS Lattice, TLC, Json

VARIABLE cs
HasN(c, k, n) == LET x == c[Ax(k)] + n IN x >= 1 /\ x <= Shape[Ax(k)]
RECURSIVE AUpTo(_, _, _)
AUpTo(u, c, k) == IF k = 0 THEN 0
    ELSE (IF HasN(c, k, 1) THEN u[c] - u[Sh(c, k, 1)] ELSE 0) + (IF HasN(c, k, -1) THEN u[c] - u[Sh(c, k, -1)] ELSE 0)
         + AUpTo(u, c, k - 1)
A(u) == [c \in Cells |-> AUpTo(u, c, D)]

Imp(c0) == [c \in Cells |-> IF c = c0 THEN 1 ELSE 0]
Dot(a, b) == Total([c \in Cells |-> a[c] * b[c]])
\* edges of the grid graph (c, c + e_k)
Edges == {<<c, k>> \in Cells \X (1..D) : HasN(c, k, 1)}
EdgeForm(a, b) == LET f == [e \in Edges |-> (a[e[1]] - a[Sh(e[1], e[2], 1)]) * (b[e[1]] - b[Sh(e[1], e[2], 1)])]
                  IN  FoldFunction(LAMBDA x, y : x + y, 0, f)

Dense(s) == [c \in Cells |-> ((3 * c[1] + 5 * c[2] + 7 * c[D] * s + c[1] * c[2] * s) % 7) - 3]

Init == \/ \E c1 \in Cells, c2 \in Cells : cs = [kind |-> "pair", a |-> c1, b |-> c2, s |-> 0]
        \/ \E s \in 1..4, k \in -2..2 : cs = [kind |-> "problem", a |-> <<>>, b |-> <<>>, s |-> s * 10 + k]
Next == UNCHANGED cs
Spec == Init /\ [][Next]_cs

Laws == cs.kind = "pair" =>
          LET ea == Imp(cs.a) eb == Imp(cs.b) Aa == A(ea) Ab == A(eb) IN
          /\ Dot(ea, Ab) = Dot(Aa, eb)                 \* symmetric
          /\ Dot(ea, Ab) = EdgeForm(ea, eb)            \* energy form
          /\ Total(Aa) = 0                             \* compatibility: range is orthogonal to constants

\* a problem with known solution: u dense, constant shift k; expected = NCells * (u - mean u)
PU == Dense(cs.s \div 10)
PK == cs.s % 10
NCells == Cardinality(Cells)
EmitState == cs.kind = "problem" =>
    PrintT(<<"EMIT", ToJson([shape |-> Shape, f |-> Arr([c \in Cells |-> A(PU)[c] + PK]),
                             sol_times_n |-> Arr([c \in Cells |-> NCells * PU[c] - Total(PU)]), n |-> NCells])>>)
\* the emitted problem is consistent: A(expected) = NCells * (f - mean f)
ProblemOk == cs.kind = "problem" =>
    LET f == [c \in Cells |-> A(PU)[c] + PK]
        x == [c \in Cells |-> NCells * PU[c] - Total(PU)]
    IN  /\ Total(x) = 0
        /\ \A c \in Cells : A(x)[c] = NCells * f[c] - Total(f)
=============================================================================
