--------------------------- MODULE MC_TimeSteppers --------------------------
(***************************************************************************)
(* C20: the SSP-RK3 vortex-stretching step equals                          *)
(*         (I + A + A^2/2 + A^3/6) omega                                   *)
(* with A the Euler-forward flux operator for the FULL step (frozen        *)
(* velocity => A linear in omega, so unit impulses of omega cover all      *)
(* vorticity fields).  ThirdStageHalf = TRUE is the design variant in      *)
(* which the third stage advances by half the step; TLC must refute it.    *)
(* The Euler kernels are `field + step * flux(field)` by definition of     *)
(* Stencils!AdvStep6 / DiffStep / TimeSteppers!StretchEuler; what is       *)
(* checked for them is the composition law Euler(p) o Euler(q) /= Euler(p+q) *)
(* is NOT claimed, only linearity in the step: Euler(f, 2p) - f = 2 (Euler(f, p) - f). *)
(***************************************************************************)
EXTENDS TimeSteppers, TLC

CONSTANTS ThirdStageHalf, UPatterns

VARIABLE cs     \* [k |-> component, c0 |-> cell, up |-> velocity pattern, p |-> even step prefactor]

\* deterministic "generic" velocity fields, values in -2..2
UField(up) == [k \in 1..3 |-> [c \in Cells |->
                 ((up[1] * c[1] + up[2] * c[2] + up[3] * c[3] + up[4] * k + c[1] * c[2] * k) % 5) - 2]]
Imp(k0, c0) == [k \in 1..3 |-> [c \in Cells |-> IF k = k0 /\ c = c0 THEN 1 ELSE 0]]

\* two levels so that TLC's workers share the cases (initial states are processed sequentially):
\* p = 0 marks a case whose step size has not been chosen yet
Init == \E k \in 1..3, c0 \in Cells, up \in UPatterns : cs = [k |-> k, c0 |-> c0, up |-> up, p |-> 0]
Next == cs.p = 0 /\ \E p \in {2, 4} : cs' = [cs EXCEPT !.p = p]
Spec == Init /\ [][Next]_cs

Om == Imp(cs.k, cs.c0)
U  == UField(cs.up)
P3 == IF ThirdStageHalf THEN cs.p \div 2 ELSE cs.p

SspIsPoly == cs.p # 0 => LET om == DeepV(Om) u == DeepV(U) IN SSPRK3x12(om, u, cs.p, P3) = Poly3x12(om, u, cs.p)

\* Euler forward is affine in the step it is given (no hidden rescaling of the step)
EulerLinearInStep == cs.p # 0 =>
    LET om == DeepV(Om) u == DeepV(U)
        e1 == StretchEuler(om, u, cs.p)
        e2 == StretchEuler(om, u, 2 * cs.p)
    IN  \A k \in 1..3 : \A c \in Cells : e2[k][c] - Om[k][c] = 2 * (e1[k][c] - Om[k][c])

\* vacuity: the cubic term must matter somewhere (A^3 omega /= 0 for some case)
CubicVanishes == cs.p # 0 => LET om == DeepV(Om) u == DeepV(U) a3 == A(DeepV(A(DeepV(A(om, u, 1)), u, 1)), u, 1) IN \A k \in 1..3 : \A c \in Cells : a3[k][c] = 0
=============================================================================
