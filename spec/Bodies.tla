------------------------------- MODULE Bodies --------------------------------
(***************************************************************************)
(* C08 / C09: forcing grids of immersed bodies over exact rationals.       *)
(*                                                                         *)
(* Conventions (PyElastica): the director matrix Q has the material axes   *)
(* d1, d2, d3 as ROWS: v_material = Q v_lab, v_lab = Q^T v_material;       *)
(* angular velocities and couples are stored in the MATERIAL frame.        *)
(*                                                                         *)
(* Rigid body:  x_m = X + Q^T a_m ,  v_m = V + (Q^T W) x (x_m - X)         *)
(*              force = - sum F_m ,  couple = - Q sum (x_m - X) x F_m      *)
(* Rod element e (nodes e, e+1; centre c_e; mass-weighted velocity ve;     *)
(* director Q_e; angular velocity W_e):                                    *)
(*              x_m = c_e + arm_m ,  v_m = ve + (Q_e^T W_e) x arm_m        *)
(*              nodal forces -F_m / 2 to both nodes, couple - Q_e arm x F  *)
(* The balance laws are linear in the marker forces: unit forces on every  *)
(* (marker, component) cover all forcing fields.                           *)
(***************************************************************************)
EXTENDS VecQ, Integers, FiniteSets, TLC, Json

CONSTANTS Quats,        \* integer quaternions
          Kinds         \* which grids to enumerate

VARIABLE cs
Rec(kind, q, q2, w, fm, fc, opt) == [kind |-> kind, q |-> q, q2 |-> q2, w |-> w, fm |-> fm, fc |-> fc, opt |-> opt]

\* ---------------------------------------------------------------- fixed (generic) data
X0   == V3(Q(3, 2), Q(5, 4), Q(-3, 4))               \* body position
Vb   == VI(1, -2, 3)                                  \* body velocity
Wset == << VI(0, 0, 0), VI(2, 1, -1), VI(-1, 3, 2) >> \* material-frame angular velocities
Arms == << V3(Q(3, 5), Q(4, 5), Q(0, 1)), V3(Q(-1, 1), Q(1, 2), Q(2, 1)), V3(Q(0, 1), Q(0, 1), Q(-3, 2)) >>
P0   == VI(1, 2, 3)                                   \* a second reference point
Unit(c, s) == [i \in 1..3 |-> IF i = c THEN RInt(s) ELSE RInt(0)]

\* rod: three elements, nodes from Pythagorean segments (rational tangents), tapered radii, node masses
Nodes3 == << VI(0, 0, 0), V3(Q(3, 4), Q(1, 1), Q(0, 1)), V3(Q(7, 4), Q(7, 4), Q(1, 2)), V3(Q(3, 1), Q(2, 1), Q(1, 2)) >>
Nodes2 == << VI(0, 0, 0), V3(Q(3, 4), Q(1, 1), Q(0, 1)), V3(Q(7, 4), Q(7, 4), Q(0, 1)), V3(Q(19, 8), Q(13, 4), Q(0, 1)) >>   \* planar (edge grid)
Tang2  == << V3(Q(3, 5), Q(4, 5), Q(0, 1)), V3(Q(4, 5), Q(3, 5), Q(0, 1)), V3(Q(5, 13), Q(12, 13), Q(0, 1)) >>        \* unit tangents of Nodes2 (see ASSUME)
NodeV  == << VI(1, 0, -1), VI(2, -1, 0), VI(-1, 1, 2), VI(0, 3, 1) >>
Mass   == << 1, 3, 2, 2 >>
Radii(taper) == IF taper THEN << Q(1, 2), Q(1, 4), Q(1, 2) >> ELSE << Q(1, 2), Q(1, 2), Q(1, 2) >>
NE == 3

Centre(nodes, e) == VScale(Q(1, 2), VAdd(nodes[e], nodes[e + 1]))
ElemVel(e) == VScale(Q(1, Mass[e] + Mass[e + 1]), VAdd(VScale(RInt(Mass[e]), NodeV[e]), VScale(RInt(Mass[e + 1]), NodeV[e + 1])))

\* ---------------------------------------------------------------- cases
QPairs == {<<a, b>> : a \in Quats, b \in Quats}
\* two levels (TLC processes initial states sequentially): first the body/grid configuration (fm = 0),
\* then (Force) the marker and component that carry the unit force
Init ==
  \/ "rigid3" \in Kinds /\ \E q \in Quats, w \in 1..3 : cs = Rec("rigid3", q, q, w, 0, 0, FALSE)
  \* 2-D cylinder: rotation about z by a rational angle; flip = TRUE: the director d3 points along -z (an admissible pose)
  \/ "rigid2" \in Kinds /\ \E cs2 \in {<<1, 0>>, <<3, 4>>, <<-5, 12>>, <<0, -1>>, <<-4, -3>>}, w \in 1..3, flip \in BOOLEAN :
                               cs = Rec("rigid2", cs2, cs2, w, 0, 0, flip)
  \/ "rod_elem" \in Kinds /\ \E qq \in QPairs : cs = Rec("rod_elem", qq[1], qq[2], 2, 0, 0, FALSE)
  \/ "rod_nodal" \in Kinds /\ cs = Rec("rod_nodal", <<1, 0, 0, 0>>, <<1, 0, 0, 0>>, 2, 0, 0, FALSE)
  \/ "rod_edge" \in Kinds /\ \E w \in 1..3 : cs = Rec("rod_edge", <<1, 0, 0, 0>>, <<1, 0, 0, 0>>, w, 0, 0, FALSE)
  \/ "rod_surf" \in Kinds /\ \E qq \in QPairs, taper \in BOOLEAN, cap \in BOOLEAN, w \in 2..3 :
                               cs = Rec("rod_surf", qq[1], qq[2], w, 0, 0, <<taper, cap>>)
NMarkersOf(k) == CASE k \in {"rigid3", "rigid2", "rod_elem"} -> 3 [] k = "rod_nodal" -> NE + 1 [] k = "rod_edge" -> 3 * NE [] OTHER -> 14
Force == /\ cs.fm = 0
         /\ \E m \in 1..NMarkersOf(cs.kind), c \in 1..(IF cs.kind \in {"rigid2", "rod_edge"} THEN 2 ELSE 3) :
               cs' = [cs EXCEPT !.fm = m, !.fc = c]
Next == Force
Spec == Init /\ [][Next]_cs

\* ---------------------------------------------------------------- rigid bodies
Qd     == IF cs.kind = "rigid2"
          THEN LET h == IF cs.q \in {<<3, 4>>, <<-4, -3>>} THEN 5 ELSE IF cs.q = <<-5, 12>> THEN 13 ELSE 1
               IN  IF cs.opt THEN << V3(Q(cs.q[1], h), Q(cs.q[2], h), Q(0, 1)), V3(Q(cs.q[2], h), Q(-cs.q[1], h), Q(0, 1)), VI(0, 0, -1) >>
                   ELSE << V3(Q(cs.q[1], h), Q(cs.q[2], h), Q(0, 1)), V3(Q(-cs.q[2], h), Q(cs.q[1], h), Q(0, 1)), VI(0, 0, 1) >>
          ELSE Rot(cs.q)
Wm     == Wset[cs.w]
RArm(m)  == IF cs.kind = "rigid2" THEN V3(Arms[m][1], Arms[m][2], Q(0, 1)) ELSE Arms[m]
RG(m)    == MatVec(Transp(Qd), RArm(m))                 \* arm in the lab frame
RX(m)    == VAdd(X0, RG(m))
RWlab    == IF cs.kind = "rigid2" THEN V3(Q(0, 1), Q(0, 1), RMul(Qd[3][3], Wm[3])) ELSE MatVec(Transp(Qd), Wm)
RVel(m)  == VAdd(Vb, VCross(RWlab, RG(m)))
RF(m)    == IF m = cs.fm THEN Unit(cs.fc, 1) ELSE VZ
RForce   == VNeg(VSumSeq([m \in 1..3 |-> RF(m)]))
RTorqueLab == VNeg(VSumSeq([m \in 1..3 |-> VCross(RG(m), RF(m))]))
RTorqueMat == IF cs.kind = "rigid2" THEN V3(Q(0, 1), Q(0, 1), RMul(Qd[3][3], RTorqueLab[3])) ELSE MatVec(Qd, RTorqueLab)
RTorqueBack == IF cs.kind = "rigid2" THEN V3(Q(0, 1), Q(0, 1), RMul(Qd[3][3], RTorqueMat[3])) ELSE MatVec(Transp(Qd), RTorqueMat)

RigidLaws == (cs.kind \in {"rigid3", "rigid2"} /\ cs.fm # 0) =>
   /\ IsRotation(Qd)
   /\ VEq(RForce, VNeg(VSumSeq([m \in 1..3 |-> RF(m)])))
   \* moment about the origin and about P0
   /\ VEq(VAdd(VCross(X0, RForce), RTorqueBack), VNeg(VSumSeq([m \in 1..3 |-> VCross(RX(m), RF(m))])))
   /\ VEq(VAdd(VCross(VSub(X0, P0), RForce), RTorqueBack), VNeg(VSumSeq([m \in 1..3 |-> VCross(VSub(RX(m), P0), RF(m))])))
   \* power of the transferred wrench = - power of the marker forces at the marker velocities
   /\ REq(RAdd(VDot(RForce, Vb), VDot(RTorqueBack, RWlab)),
          RNeg(RAdd(RAdd(VDot(RF(1), RVel(1)), VDot(RF(2), RVel(2))), VDot(RF(3), RVel(3)))))
   \* rigid kinematics
   /\ \A m \in 1..3 : VEq(RVel(m), VAdd(Vb, VCross(RWlab, VSub(RX(m), X0))))

\* ---------------------------------------------------------------- rods
Nodes == IF cs.kind = "rod_edge" THEN Nodes2 ELSE Nodes3
Qe(e) == IF e = 2 THEN Rot(cs.q2) ELSE Rot(cs.q)
We(e) == IF cs.kind = "rod_edge" THEN V3(Q(0, 1), Q(0, 1), Wset[cs.w][3]) ELSE Wset[((e + cs.w) % 3) + 1]
WeLab(e) == MatVec(Transp(Qe(e)), We(e))
Taper == cs.kind = "rod_surf" /\ cs.opt[1]
Cap   == cs.kind = "rod_surf" /\ cs.opt[2]
Rad(e) == Radii(Taper)[e]
\* surface grid bookkeeping: density 4 on the widest element; an element whose share rounds below 3 gets one
\* marker on its centre; capped end elements with a ring get one extra marker on the axis
NPts(e) == IF REq(Rad(e), Q(1, 2)) THEN 4 ELSE 1
Ring == << VI(1, 0, 0), VI(0, 1, 0), VI(-1, 0, 0), VI(0, -1, 0) >>
\* markers of element e: sequence of [p |-> local unit point, rho |-> radius ratio]
ElemMarkers(e) == LET ring == IF NPts(e) = 4 THEN [k \in 1..4 |-> [p |-> Ring[k], rho |-> RInt(1)]]
                                             ELSE << [p |-> VZ, rho |-> RInt(1)] >>
                      capm == IF Cap /\ e \in {1, NE} /\ NPts(e) = 4 THEN << [p |-> VI(1, 0, 0), rho |-> RInt(0)] >> ELSE <<>>
                  IN  ring \o capm
\* flat marker list: sequence of [e, arm]
SurfMarkers == LET ms(e) == [k \in 1..Len(ElemMarkers(e)) |->
                               [e |-> e, arm |-> VScale(RMul(Rad(e), ElemMarkers(e)[k].rho), MatVec(Transp(Qe(e)), ElemMarkers(e)[k].p))]]
               IN  ms(1) \o ms(2) \o ms(3)
EdgeArm(e) == VScale(Q(1, 2), VCross(VI(0, 0, 1), Tang2[e]))          \* radius 1/2 times (z x tangent)
EdgeMarkers == [k \in 1..(3 * NE) |-> IF k <= NE THEN [e |-> k, arm |-> VZ]
                                      ELSE IF k <= 2 * NE THEN [e |-> k - NE, arm |-> EdgeArm(k - NE)]
                                      ELSE [e |-> k - 2 * NE, arm |-> VNeg(EdgeArm(k - 2 * NE))]]
ElemOnly == [k \in 1..NE |-> [e |-> k, arm |-> VZ]]
Markers == CASE cs.kind = "rod_surf" -> SurfMarkers [] cs.kind = "rod_edge" -> EdgeMarkers [] OTHER -> ElemOnly
NM == Len(Markers)
MPos(k) == VAdd(Centre(Nodes, Markers[k].e), Markers[k].arm)
MVel(k) == VAdd(ElemVel(Markers[k].e), VCross(WeLab(Markers[k].e), Markers[k].arm))
MF(k)   == IF k = cs.fm THEN Unit(cs.fc, 1) ELSE VZ
\* nodal forces and element couples (material frame)
NodeForce(n) == VNeg(VScale(Q(1, 2), VSumSeq([k \in 1..NM |-> IF Markers[k].e = n \/ Markers[k].e = n - 1 THEN MF(k) ELSE VZ])))
ElemCoupleLab(e) == VNeg(VSumSeq([k \in 1..NM |-> IF Markers[k].e = e THEN VCross(Markers[k].arm, MF(k)) ELSE VZ]))
ElemCouple(e) == MatVec(Qe(e), ElemCoupleLab(e))

RodLaws == (cs.kind \in {"rod_elem", "rod_edge", "rod_surf"} /\ cs.fm # 0 /\ cs.fm <= NM) =>
   /\ VEq(VSumSeq([n \in 1..(NE + 1) |-> NodeForce(n)]), VNeg(MF(cs.fm)))
   /\ VEq(VAdd(VSumSeq([n \in 1..(NE + 1) |-> VCross(Nodes[n], NodeForce(n))]),
               VSumSeq([e \in 1..NE |-> MatVec(Transp(Qe(e)), ElemCouple(e))])),
          VNeg(VCross(MPos(cs.fm), MF(cs.fm))))
   /\ VEq(VAdd(VSumSeq([n \in 1..(NE + 1) |-> VCross(VSub(Nodes[n], P0), NodeForce(n))]),
               VSumSeq([e \in 1..NE |-> MatVec(Transp(Qe(e)), ElemCouple(e))])),
          VNeg(VCross(VSub(MPos(cs.fm), P0), MF(cs.fm))))
   \* surface markers sit at radius * ratio from the element centre, centre markers on it
   /\ cs.kind = "rod_surf" => \A k \in 1..NM :
          LET a == Markers[k].arm IN REq(VDot(a, a), RMul(Rad(Markers[k].e), Rad(Markers[k].e))) \/ VEq(a, VZ)
NodalLaws == cs.kind = "rod_nodal" => TRUE     \* nodal grid: positions/velocities coincide with node data; force = -F (replay)

ASSUME \A e \in 1..3 : REq(VDot(Tang2[e], Tang2[e]), RInt(1))
ASSUME \A e \in 1..3 : VEq(VCross(Tang2[e], VSub(Nodes2[e + 1], Nodes2[e])), VZ)

\* ---------------------------------------------------------------- emission
EmitState ==
  IF cs.fm = 0 THEN TRUE ELSE
  IF cs.kind \in {"rigid3", "rigid2"}
  THEN PrintT(<<"EMIT", ToJson([cs |-> cs, Q |-> Qd, X |-> X0, V |-> Vb, W |-> Wm,
                 arms |-> [m \in 1..3 |-> RArm(m)], pos |-> [m \in 1..3 |-> RX(m)], vel |-> [m \in 1..3 |-> RVel(m)],
                 F |-> [m \in 1..3 |-> RF(m)], force |-> RForce, torque |-> RTorqueMat])>>)
  ELSE IF cs.kind = "rod_nodal"
  THEN PrintT(<<"EMIT", ToJson([cs |-> cs, nodes |-> Nodes, nodev |-> NodeV, mass |-> Mass])>>)
  ELSE IF cs.fm <= NM
  THEN PrintT(<<"EMIT", ToJson([cs |-> cs, nodes |-> Nodes, nodev |-> NodeV, mass |-> Mass,
                 Q |-> [e \in 1..NE |-> Qe(e)], W |-> [e \in 1..NE |-> We(e)], radius |-> [e \in 1..NE |-> Rad(e)],
                 tang |-> Tang2, npts |-> [e \in 1..NE |-> Len(ElemMarkers(e))],
                 pos |-> [k \in 1..NM |-> MPos(k)], vel |-> [k \in 1..NM |-> MVel(k)], F |-> [k \in 1..NM |-> MF(k)],
                 nodef |-> [n \in 1..(NE + 1) |-> NodeForce(n)], couple |-> [e \in 1..NE |-> ElemCouple(e)]])>>)
  ELSE TRUE
=============================================================================
