------------------------------- MODULE Poisson -------------------------------
(***************************************************************************)
(* C03: the unbounded Poisson solve as a buffer state machine              *)
(* (Hockney-Eastwood domain doubling):                                     *)
(*    Reset   zero the doubled work buffer                                 *)
(*    CopyIn  copy the right-hand side into its low corner                 *)
(*    Conv    circular convolution on the doubled grid with the EVEN       *)
(*            reflection of the Green's function  Gd[p] = G[min(p, 2N-p)]  *)
(*    CopyOut copy the low corner into the solution                        *)
(* and the aperiodic convolution  sol[c] = sum_c' rhs[c'] G[|c - c'|]  it  *)
(* must equal.  Green's-function samples are irrational, so values are     *)
(* SYMBOLIC-LINEAR FORMS: functions Seps -> Int (coefficient of G[s]).     *)
(* The work buffer starts with ARBITRARY stale contents and is havocked    *)
(* after every solve: "independent of any earlier solve" is an invariant   *)
(* over all histories.  ResetBeforeCopy / CornerVariant / ReflectVariant   *)
(* are design variants used as negative controls.                          *)
(***************************************************************************)
EXTENDS Integers, Sequences, FiniteSets, TLC, Json

CONSTANTS Shape,            \* <<N1>>, <<NY, NX>> or <<NZ, NY, NX>>
          RhsSet,           \* "impulses" | "dense"
          StaleVals,        \* values a stale buffer cell may hold
          MaxSolves,
          ResetBeforeCopy,  \* TRUE (intended)
          Corner,           \* corner copied OUT: "low" (intended, where the right-hand side went in) | "high"
          Reflect,          \* "even" (intended) | "none" (periodic images)
          SkipZeroRhs       \* FALSE (intended) | TRUE: variant that returns early for an identically zero right-hand side

VARIABLES pc, rhs, dbl, sol, nsolves, hist
vars == <<pc, rhs, dbl, sol, nsolves, hist>>

D == Len(Shape)
Idx(n) == 0..(n - 1)
Tup(sh) == IF Len(sh) = 1 THEN {<<i>> : i \in Idx(sh[1])}
           ELSE IF Len(sh) = 2 THEN {<<i, j>> : i \in Idx(sh[1]), j \in Idx(sh[2])}
           ELSE {<<i, j, k>> : i \in Idx(sh[1]), j \in Idx(sh[2]), k \in Idx(sh[3])}
Cells  == Tup(Shape)
DShape == [a \in 1..D |-> 2 * Shape[a]]
DCells == Tup(DShape)
Seps   == Tup([a \in 1..D |-> Shape[a] + 1])          \* |separation| per axis, 0..N
ZeroF  == [s \in Seps |-> 0]
AbsI(x) == IF x < 0 THEN -x ELSE x

\* the Green's function on the doubled grid, as the separation class it samples
Refl(p, n) == IF Reflect = "even" THEN (IF p <= 2 * n - p THEN p ELSE 2 * n - p) ELSE (IF p <= n THEN p ELSE n)
GdSep(d)   == [a \in 1..D |-> Refl(d[a], Shape[a])]
Wrap(p, n) == (p + 2 * n) % (2 * n)

\* circular convolution of an integer buffer on the doubled grid with Gd, at doubled cell t
CircConvAt(buf, t) ==
    [s \in Seps |-> LET contrib == {d \in DCells : buf[d] # 0 /\ GdSep([a \in 1..D |-> Wrap(t[a] - d[a], Shape[a])]) = s}
                    IN  IF contrib = {} THEN 0
                        ELSE LET RECURSIVE Sum(_)
                                 Sum(S) == IF S = {} THEN 0 ELSE LET x == CHOOSE y \in S : TRUE IN buf[x] + Sum(S \ {x})
                             IN  Sum(contrib)]
\* what the solve must return: the aperiodic (free-space) convolution
AperiodicAt(r, c) ==
    [s \in Seps |-> LET contrib == {c2 \in Cells : r[c2] # 0 /\ [a \in 1..D |-> AbsI(c[a] - c2[a])] = s}
                    IN  IF contrib = {} THEN 0
                        ELSE LET RECURSIVE Sum(_)
                                 Sum(S) == IF S = {} THEN 0 ELSE LET x == CHOOSE y \in S : TRUE IN r[x] + Sum(S \ {x})
                             IN  Sum(contrib)]

CornerCell(c) == IF Corner = "low" THEN c ELSE [a \in 1..D |-> c[a] + Shape[a]]
InCorner(d)   == \A a \in 1..D : d[a] < Shape[a]        \* the right-hand side always goes into the low corner
FromCorner(d) == d

Impulse(c0, v) == [c \in Cells |-> IF c = c0 THEN v ELSE 0]
Dense(k)       == [c \in Cells |-> (((IF D >= 1 THEN 3 * c[1] ELSE 0) + (IF D >= 2 THEN 5 * c[2] ELSE 0)
                                      + (IF D >= 3 THEN 7 * c[3] ELSE 0) + k) % 5) - 2]
ZeroRhs    == [c \in Cells |-> 0]
RhsChoices == IF RhsSet = "impulses" THEN {Impulse(c0, 1) : c0 \in Cells} \cup {Dense(1), ZeroRhs}
              ELSE {Dense(k) : k \in 1..3} \cup {Impulse(c0, -2) : c0 \in Cells} \cup {ZeroRhs}
\* the caller's solution array holds arbitrary earlier contents (here: a recognisable non-zero form)
StaleForm  == [s \in Seps |-> IF \A a \in 1..D : s[a] = 0 THEN 9 ELSE 0]
\* stale buffers: all zero, or one arbitrary cell holding an arbitrary value (the machine is linear in the
\* stale contents, so single cells cover all stale contents)
StaleChoices == {[d \in DCells |-> 0]} \cup
                {[d \in DCells |-> IF d = d0 THEN v ELSE 0] : d0 \in DCells, v \in StaleVals \ {0}}

Init == /\ pc = "reset" /\ rhs \in RhsChoices /\ dbl \in StaleChoices
        /\ sol = [c \in Cells |-> StaleForm] /\ nsolves = 1 /\ hist = <<>>

Reset   == /\ pc = "reset"
           /\ dbl' = IF ResetBeforeCopy THEN [d \in DCells |-> 0] ELSE dbl
           /\ pc' = "copyin" /\ UNCHANGED <<rhs, sol, nsolves, hist>>
CopyIn  == /\ pc = "copyin"
           /\ dbl' = [d \in DCells |-> IF InCorner(d) THEN rhs[FromCorner(d)] ELSE dbl[d]]
           /\ pc' = "conv" /\ UNCHANGED <<rhs, sol, nsolves, hist>>
\* forward transform, product with the transformed Green's function, inverse transform: one action,
\* after which only the part that is copied out matters
ConvOut == /\ pc = "conv"
           /\ sol' = IF SkipZeroRhs /\ rhs = ZeroRhs THEN sol
                     ELSE [c \in Cells |-> CircConvAt(dbl, CornerCell(c))]
           /\ pc' = "done" /\ UNCHANGED <<rhs, dbl, nsolves, hist>>
\* next solve on the same object: new right-hand side, buffer holds arbitrary leftovers
Again   == /\ pc = "done" /\ nsolves < MaxSolves
           /\ rhs' \in RhsChoices /\ dbl' \in StaleChoices
           /\ hist' = Append(hist, rhs)
           /\ nsolves' = nsolves + 1 /\ pc' = "reset" /\ UNCHANGED sol
Next == Reset \/ CopyIn \/ ConvOut \/ Again
Spec == Init /\ [][Next]_vars

\* ---- properties --------------------------------------------------------------------------
FreeSpace == pc = "done" => \A c \in Cells : sol[c] = AperiodicAt(rhs, c)
\* consequences, stated separately (they follow from FreeSpace; checked as a cross-check of the model)
NoPeriodicImage == pc = "done" => \A c \in Cells : \A s \in Seps : (\E a \in 1..D : s[a] = Shape[a]) => sol[c][s] = 0

NonZero(f) == {[s |-> s, k |-> f[s]] : s \in {t \in Seps : f[t] # 0}}
EmitStep == (pc = "conv" /\ pc' = "done") =>
              PrintT(<<"EMIT", ToJson([shape |-> Shape, rhs |-> {[c |-> c, v |-> rhs[c]] : c \in Cells},
                                       sol |-> {[c |-> c, form |-> NonZero(sol'[c])] : c \in Cells},
                                       n |-> nsolves])>>)
=============================================================================
