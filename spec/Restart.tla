------------------------------- MODULE Restart --------------------------------
(***************************************************************************)
(* C18.                                                                    *)
(* (a) the restart helper: given any set of checkpoint files in the        *)
(*     working directory it loads the checkpoint with the LARGEST index,   *)
(*     returns its time, and refuses to proceed when there is none, when a *)
(*     companion file of that index is missing, or when the flow time and  *)
(*     the body time disagree.                                             *)
(* (b) crash / restore of a coupled run: the public state (vorticity,      *)
(*     velocity, time, marker mismatch fields, body state) is an opaque    *)
(*     token advanced by Step; scratch is a second token that every step   *)
(*     overwrites.  A checkpoint copies the public state; Restore builds   *)
(*     fresh objects whose scratch is ARBITRARY.  HiddenState = TRUE is    *)
(*     the design variant in which a step also reads scratch left by the   *)
(*     previous step; then resuming does not continue the uninterrupted    *)
(*     run (refuted by TLC).                                               *)
(***************************************************************************)
EXTENDS Integers, Sequences, FiniteSets, TLC, Json

CONSTANTS Indices,        \* possible checkpoint indices, e.g. {3, 7, 12}
          K,              \* run length in steps
          HiddenState,    \* FALSE (intended)
          PickRule        \* "largest" (intended) | "first_found"

\* ---------------------------------------------------------------- (a) helper
VARIABLES flowFiles, rodFiles, forcingFiles, bodyTime, result
TimeOf(i) == 10000 * i
Max(S) == CHOOSE m \in S : \A x \in S : x <= m
Min(S) == CHOOSE m \in S : \A x \in S : x >= m

HInit == /\ flowFiles \in SUBSET Indices /\ rodFiles \in SUBSET Indices /\ forcingFiles \in SUBSET Indices
         \* the body time is one of the checkpoint times, a far-off value, or a checkpoint time off by one unit in the last place
         \* (times are scaled by 1000 in this model: TimeOf(i) + 1 is "equal up to a relative 1e-5", still a disagreement)
         /\ bodyTime \in {TimeOf(i) : i \in Indices} \cup {1} \cup {TimeOf(i) + 1 : i \in Indices}
         /\ result = [kind |-> "pending", t |-> 0]
Chosen == IF PickRule = "largest" THEN Max(flowFiles) ELSE Min(flowFiles)
HelperRun == /\ result.kind = "pending"
             /\ result' = IF flowFiles = {} THEN [kind |-> "FileNotFoundError", t |-> 0]
                          ELSE IF Chosen \notin rodFiles \/ Chosen \notin forcingFiles THEN [kind |-> "missing_companion", t |-> 0]
                          ELSE IF TimeOf(Chosen) # bodyTime THEN [kind |-> "ValueError", t |-> 0]
                          ELSE [kind |-> "ok", t |-> TimeOf(Chosen)]
             /\ UNCHANGED <<flowFiles, rodFiles, forcingFiles, bodyTime>>

HelperLaw == result.kind # "pending" =>
    /\ (flowFiles = {} <=> result.kind = "FileNotFoundError")
    /\ (result.kind = "ok" => /\ result.t = TimeOf(Max(flowFiles)) /\ result.t = bodyTime
                              /\ Max(flowFiles) \in rodFiles \cap forcingFiles)
    /\ (flowFiles # {} /\ TimeOf(Max(flowFiles)) # bodyTime => result.kind # "ok")

\* ---------------------------------------------------------------- (b) crash / restore
VARIABLES pub, scratch, step, ckpt, crashed, ref
\* public states are sequences of step labels: what has been applied so far (+ the scratch a step saw, if any)
StepPub(p, s) == IF HiddenState THEN Append(p, <<"step", s>>) ELSE Append(p, <<"step", "-">>)
RInit == /\ pub = <<>> /\ scratch = "clean" /\ step = 0 /\ ckpt = <<-1, <<>>>> /\ crashed = FALSE
         /\ ref = <<>>
RefAfter(n) == [i \in 1..n |-> IF HiddenState THEN <<"step", IF i = 1 THEN "clean" ELSE "left">> ELSE <<"step", "-">>]
DoStep == /\ step < K /\ pub' = StepPub(pub, scratch) /\ scratch' = "left" /\ step' = step + 1
          /\ UNCHANGED <<ckpt, crashed, ref>>
Checkpoint == /\ ~crashed /\ ckpt[1] # step /\ ckpt' = <<step, pub>> /\ UNCHANGED <<pub, scratch, step, crashed, ref>>
\* crash at any point after a checkpoint, restore into fresh objects with arbitrary scratch
CrashRestore == /\ ~crashed /\ ckpt[1] >= 0
                /\ \E s \in {"clean", "garbage1", "garbage2"} : scratch' = s
                /\ pub' = ckpt[2] /\ step' = ckpt[1] /\ crashed' = TRUE /\ UNCHANGED <<ckpt, ref>>
ResumeLaw == pub = RefAfter(step)      \* at every step index the public trajectory is the uninterrupted one

vars == <<flowFiles, rodFiles, forcingFiles, bodyTime, result, pub, scratch, step, ckpt, crashed, ref>>
Init == HInit /\ RInit
Next == \/ HelperRun /\ UNCHANGED <<pub, scratch, step, ckpt, crashed, ref>>
        \/ (DoStep \/ Checkpoint \/ CrashRestore) /\ UNCHANGED <<flowFiles, rodFiles, forcingFiles, bodyTime, result>>
Spec == Init /\ [][Next]_vars

EmitHelper == (result.kind = "pending" /\ result'.kind # "pending") =>
    PrintT(<<"EMIT", ToJson([flow |-> flowFiles, rod |-> rodFiles, forcing |-> forcingFiles, body_time |-> bodyTime, result |-> result'])>>)
=============================================================================
