--------------------------- MODULE IODescriptor ----------------------------
(***************************************************************************)
(* Extended coverage (X05): the XDMF descriptors that `IO.save` writes     *)
(* next to every HDF5 file (one for the Eulerian grid, one per Lagrangian  *)
(* grid), as a view of the file layout of IO.tla.  A descriptor is a set   *)
(* of items (dataset path, declared element count); grid extents are the   *)
(* symbolic 0 of IO.tla, so counts are pairs <<markers-or-1, per-marker>>. *)
(* Laws: the descriptors of one save describe every stored dataset exactly *)
(* once, each item points at an existing dataset and declares its number   *)
(* of elements; a grid without registered fields still gets a descriptor   *)
(* of its marker positions.                                                *)
(***************************************************************************)
EXTENDS IO

CONSTANT DescGuard     \* what switches the Lagrangian descriptors on: "grids" (intended: one per stored grid) | "fields" (what the
                       \* code does: only when at least one Lagrangian FIELD is registered anywhere -- then for every grid)

Count(d) == IF Len(d.shape) = 1 THEN <<d.shape[1], 1>> ELSE <<d.shape[1], d.shape[2]>>
Item(d)  == [path |-> d.path, count |-> Count(d)]

EDesc == IF cs.ef = {} THEN {} ELSE {[file |-> "eulerian", items |-> {Item(d) : d \in EFile}]}
LDescOn == IF DescGuard = "grids" THEN NG >= 1 ELSE HasLFields
LDesc == IF LDescOn THEN {[file |-> GName(g), items |-> {Item(d) : d \in {x \in LFile : x.path[2] = GName(g)}}] : g \in 1..NG} ELSE {}
Descriptors == EDesc \cup LDesc

AllItems == UNION {x.items : x \in Descriptors}
\* every stored dataset is described, by exactly one descriptor, with its own element count
Covers   == {i.path : i \in AllItems} = {d.path : d \in Saved.data}
Disjoint == \A x \in Descriptors, y \in Descriptors : x # y => {i.path : i \in x.items} \cap {i.path : i \in y.items} = {}
Counts   == \A i \in AllItems : \E d \in Saved.data : d.path = i.path /\ Count(d) = i.count
\* one descriptor per Lagrangian grid, registered fields or not; none for an unregistered Eulerian grid
PerGrid  == /\ Cardinality(LDesc) = NG
            /\ (cs.ef = {}) = (EDesc = {})
            /\ \A x \in LDesc : \E i \in x.items : Len(i.path) = 3

EmitDesc == PrintT(<<"EMIT", ToJson([cs |-> [dim |-> cs.dim, ef |-> cs.ef, grids |-> [g \in 1..NG |-> cs.grids[g]], mis |-> cs.mis],
                                      desc |-> {[file |-> x.file, items |-> x.items] : x \in Descriptors}])>>)
=============================================================================
