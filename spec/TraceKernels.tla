---------------------------- MODULE TraceKernels ----------------------------
(***************************************************************************)
(* C15, binding B-trace (a): a MONITOR over recorded kernel-call events.   *)
(* Each event describes one call of one generated kernel: for every        *)
(* written parameter whether it is written at the centre cell only, for    *)
(* every read parameter whether it is read at the centre only, and the     *)
(* memory relation between each written and each read parameter as         *)
(* resolved from the actual array bindings ("disjoint", "same" = identical *)
(* view, "partial" = overlapping but differently indexed).                 *)
(* It accepts any sequence of calls (refactorings are not rejected) and    *)
(* requires each call to be in the class for which Sched.tla shows         *)
(* schedule independence.                                                  *)
(***************************************************************************)
EXTENDS Integers, Sequences, TLC, Json, IOUtils

Trace == JsonDeserialize(IOEnv.TRACE_FILE)
VARIABLE l
Init == l = 1
SafeCall(e) ==
    /\ \A w \in 1..Len(e.writes) : e.writes[w].center
    /\ \A w \in 1..Len(e.writes) : \A r \in 1..Len(e.reads) :
          LET rel == e.rel[w][r] IN rel = "disjoint" \/ (rel = "same" /\ e.reads[r].center)
    /\ \A w \in 1..Len(e.writes) : \A v \in 1..Len(e.writes) : w # v => e.wrel[w][v] = "disjoint"
Next == l <= Len(Trace) /\ SafeCall(Trace[l]) /\ l' = l + 1
Spec == Init /\ [][Next]_l
Accepted == TLCGet("stats").diameter - 1 = Len(Trace)
Progress == PrintT(<<"REACHED", l>>)
=============================================================================
