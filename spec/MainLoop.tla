------------------------------- MODULE MainLoop -------------------------------
(***************************************************************************)
(* Extended coverage: the coupled main loop the examples use, as a         *)
(* particular schedule of the public calls modelled in Coupling.tla and    *)
(* FlowStep.tla:                                                           *)
(*     dt := stable time step                                              *)
(*     interaction.time_step(dt)     -- integrates the mismatch of the     *)
(*                                      PREVIOUS iteration's evaluation    *)
(*                                      (documented: "however stale")      *)
(*     interaction()                 -- evaluate + spread into the forcing *)
(*     flow.time_step(dt)            -- consumes and zeroes the forcing    *)
(*     [checkpoint]                                                        *)
(* Loop-head invariants: flow clock = forcing clock (what the restart      *)
(* helper's cross-check relies on), no forcing pending, the integral is    *)
(* the sum of dt_i times the mismatch evaluated in iteration i-1.          *)
(* DoubleInteract = TRUE is the variant in which the interaction is        *)
(* called twice per iteration in accumulate mode (forcing counted twice).  *)
(***************************************************************************)
EXTENDS Integers, Sequences, TLC

CONSTANTS Dts, Vals, MaxIter, DoubleInteract

VARIABLES pc, it, dt, ftime, itime, pending, pm, vm, u, ghost
vars == <<pc, it, dt, ftime, itime, pending, pm, vm, u, ghost>>

Init == /\ pc = "dt" /\ it = 0 /\ dt = 0 /\ ftime = 0 /\ itime = 0 /\ pending = 0 /\ pm = 0 /\ vm = 0 /\ u \in Vals /\ ghost = 0
ChooseDt == /\ pc = "dt" /\ it < MaxIter /\ dt' \in Dts /\ pc' = "istep"
            /\ UNCHANGED <<it, ftime, itime, pending, pm, vm, u, ghost>>
IStep    == /\ pc = "istep" /\ pm' = pm + dt * vm /\ ghost' = ghost + dt * vm /\ itime' = itime + dt /\ pc' = "interact"
            /\ UNCHANGED <<it, dt, ftime, pending, vm, u>>
Interact == /\ pc = "interact" /\ vm' = u /\ pending' = pending + (IF DoubleInteract THEN 2 ELSE 1) /\ pc' = "flow"
            /\ UNCHANGED <<it, dt, ftime, itime, pm, u, ghost>>
Flow     == /\ pc = "flow" /\ pending = 1 /\ pending' = 0 /\ ftime' = ftime + dt /\ u' \in Vals /\ it' = it + 1 /\ pc' = "dt"
            /\ UNCHANGED <<dt, itime, pm, vm, ghost>>
\* a flow step that finds a doubly loaded forcing field still consumes it -- but the physics got twice the force
FlowDouble == /\ pc = "flow" /\ pending = 2 /\ pending' = 0 /\ ftime' = ftime + dt /\ u' \in Vals /\ it' = it + 1 /\ pc' = "broken"
              /\ UNCHANGED <<dt, itime, pm, vm, ghost>>
Next == ChooseDt \/ IStep \/ Interact \/ Flow \/ FlowDouble
Spec == Init /\ [][Next]_vars

LoopHead == pc = "dt" => (ftime = itime /\ pending = 0 /\ pm = ghost)
ForceOnce == pc # "broken"
=============================================================================
