--------------------------- MODULE MC_MaxPrinciple --------------------------
(***************************************************************************)
(* C16 (b): with r = nu dt / h^2 <= 1 / (2 D) the explicit diffusion step  *)
(* is a convex averaging of the 2D+1 stencil values: it creates no new     *)
(* extrema; boundary-ring cells are unchanged.  r = RNum / RDen; values    *)
(* are compared after multiplication by RDen.  Minimal grid (one interior  *)
(* cell), exhaustive over all stencil values.                              *)
(***************************************************************************)
EXTENDS Stencils, TLC, Json

CONSTANTS Vals, RNum, RDen
VARIABLE f

Centre == [a \in 1..D |-> 2]
StencilCells == {Centre} \cup {Sh(Centre, k, n) : k \in 1..D, n \in {-1, 1}}
Init == \E w \in [StencilCells -> Vals] : f = [c \in Cells |-> IF c \in StencilCells THEN w[c] ELSE 0]
Next == UNCHANGED f
Spec == Init /\ [][Next]_f

\* RDen * (f + r Lap f)  on the interior, RDen * f on the ring
StepScaled == [c \in Cells |-> IF InInterior(c, 1) THEN RDen * f[c] + RNum * Lap(f, c) ELSE RDen * f[c]]
SMax == CHOOSE m \in {f[c] : c \in StencilCells} : \A c \in StencilCells : f[c] <= m
SMin == CHOOSE m \in {f[c] : c \in StencilCells} : \A c \in StencilCells : f[c] >= m

MaxPrinciple == RDen * SMin <= StepScaled[Centre] /\ StepScaled[Centre] <= RDen * SMax
RingUnchanged == \A c \in Cells : ~InInterior(c, 1) => StepScaled[c] = RDen * f[c]
EmitState == PrintT(<<"EMIT", ToJson([f |-> Arr(f), scaled |-> Arr(StepScaled), lo |-> SMin, hi |-> SMax])>>)
\* the step of the Stencils module is the same thing for integer r
SameAsDiffStep == RDen = 1 => StepScaled = DiffStep(f, RNum)
=============================================================================
