------------------------------- MODULE Interp --------------------------------
(***************************************************************************)
(* C06 / C07: Eulerian <-> Lagrangian grid communication.                  *)
(*                                                                         *)
(* A marker sits on a sub-cell lattice: along each axis its coordinate is  *)
(*     x = (i + r / M) h + h / 2 ,   i = cell index, r in 0..M-1           *)
(* so r = 0 is "exactly on a cell centre".  The nearest-index computation  *)
(* floor((x - h/2) / h) returns i, except that for r = 0 floating-point    *)
(* rounding may return i - 1 (documented in the source): FloorIdx is       *)
(* NONDETERMINISTIC between the two there.  The window is idx + (-1..2);   *)
(* distances are recomputed from idx, weights are tensor products of a     *)
(* 1-D table.  Tab[r + 1] = <<w(-1), w(0), w(1), w(2)>> are the four       *)
(* window weights (times S) for residue r with idx = i; for the shifted    *)
(* index (r = 0, idx = i - 1) the window slides by one cell and the        *)
(* weights are <<w at distance -2, ...>> = <<Edge, Tab[1][1], Tab[1][2],   *)
(* Tab[1][3]>> where Edge = weight at distance 2 = Tab[1][4] (= 0 for      *)
(* both documented kernels).                                               *)
(*                                                                         *)
(* Interpolation I and spreading Sp (which ACCUMULATES) are defined from   *)
(* the weights; the laws are checked for all lattice positions, both       *)
(* floor outcomes, overlapping and duplicated markers, repeated spreads.   *)
(***************************************************************************)
EXTENDS Integers, Sequences, FiniteSets, Functions, TLC, Json

CONSTANTS D,            \* 2 or 3
          M,            \* sub-cell resolution
          S,            \* scale of the 1-D table: sum of a row = S
          Tab,          \* Tab[r + 1][j + 2], r in 0..M-1, j in -1..2
          FirstMoment,  \* TRUE if the kernel has vanishing first moment (Peskin)
          NGrid,        \* cells per axis of the (cubic) model grid
          CuLo, CuHi,   \* the probe cell of u ranges over CuLo..CuHi per axis
          Offsets2,     \* cell offsets of marker 2 relative to marker 1 (tuples)
          SpreadMode    \* "accumulate" (intended) | "assign"

VARIABLES mk,           \* sequence of markers: [i |-> cell tuple, r |-> residue tuple, sh |-> shifted-floor flags]
          cu, mf,       \* unit impulse of u at cell cu; unit force on marker mf
          eul,          \* Eulerian field being spread into
          nspread,      \* how often each marker has been spread
          pc
vars == <<mk, cu, mf, eul, nspread, pc>>

Axes == 1..D
CellsG == IF D = 2 THEN {<<a, b>> : a \in 0..(NGrid - 1), b \in 0..(NGrid - 1)}
          ELSE {<<a, b, c>> : a \in 0..(NGrid - 1), b \in 0..(NGrid - 1), c \in 0..(NGrid - 1)}
Res   == IF D = 2 THEN {<<a, b>> : a \in 0..(M - 1), b \in 0..(M - 1)}
         ELSE {<<a, b, c>> : a \in 0..(M - 1), b \in 0..(M - 1), c \in 0..(M - 1)}
Flags == IF D = 2 THEN {<<a, b>> : a \in BOOLEAN, b \in BOOLEAN}
         ELSE {<<a, b, c>> : a \in BOOLEAN, b \in BOOLEAN, c \in BOOLEAN}
\* a shifted floor is only possible on a cell centre
OkFlags(r, sh) == \A a \in Axes : sh[a] => r[a] = 0

\* 1-D: index returned by the floor, and the weight (times S) of window slot j in -1..2
Idx1(i, r, shifted) == IF shifted THEN i - 1 ELSE i
W1(r, shifted, j)   == IF ~shifted THEN Tab[r + 1][j + 2]
                       ELSE IF j = -1 THEN Tab[1][4]          \* distance -2 == distance 2 by symmetry
                       ELSE Tab[1][j + 1]                     \* slot j of the shifted window = slot j-1 of the regular one
\* signed distance (cell - marker) in units of h / M
Dist1(i, r, shifted, j) == (Idx1(i, r, shifted) + j) * M - (i * M + r)

Win == IF D = 2 THEN {<<a, b>> : a \in -1..2, b \in -1..2} ELSE {<<a, b, c>> : a \in -1..2, b \in -1..2, c \in -1..2}
RECURSIVE ProdW(_, _, _)
ProdW(m, j, a) == IF a = 0 THEN 1 ELSE W1(m.r[a], m.sh[a], j[a]) * ProdW(m, j, a - 1)
Weight(m, j) == ProdW(m, j, D)                                   \* times S^D
CellOf(m, j) == [a \in Axes |-> Idx1(m.i[a], m.r[a], m.sh[a]) + j[a]]
SD == S ^ D

\* interpolation of a field u (function on cells) to marker m, times S^D
Interp(m, u) == FoldFunction(LAMBDA x, y : x + y, 0, [j \in Win |-> Weight(m, j) * u[CellOf(m, j)]])
\* spreading force F of marker m into field e
Spread(m, F, e) == [c \in CellsG |->
                      LET js == {j \in Win : CellOf(m, j) = c}
                          add == IF js = {} THEN 0 ELSE F * Weight(m, CHOOSE j \in js : TRUE)
                      IN  IF SpreadMode = "accumulate" THEN e[c] + add
                          ELSE IF js = {} THEN e[c] ELSE add]

Base == [a \in Axes |-> 2]                                       \* marker 1 lives in cell (2, 2[, 2])
Marker(i, r, sh) == [i |-> i, r |-> r, sh |-> sh]
NoSh == [a \in Axes |-> FALSE]
ZeroR == [a \in Axes |-> 0]
\* two levels (initial states are processed sequentially by TLC): first marker 1 and the offset,
\* then (Choose) marker 2's residues, the probe cell of u and the forced marker
Init == /\ \E r1 \in Res, s1 \in Flags, o \in Offsets2 :
              /\ OkFlags(r1, s1)
              /\ mk = << Marker(Base, r1, s1), Marker([a \in Axes |-> Base[a] + o[a]], ZeroR, NoSh) >>
        /\ cu = Base /\ mf = 1
        /\ eul = [c \in CellsG |-> 0] /\ nspread = <<0, 0>> /\ pc = -1
Choose == /\ pc = -1
          /\ \E r2 \in Res : mk' = [mk EXCEPT ![2].r = r2]
          /\ cu' \in {c \in CellsG : \A a \in Axes : c[a] >= CuLo /\ c[a] <= CuHi}
          /\ mf' \in 1..2
          /\ pc' = 0 /\ UNCHANGED <<eul, nspread>>

\* spread the marker forces in the order 1, 2, 1 (a repeated call): contributions must add up
Order == <<1, 2, 1>>
Force(m) == IF m = mf THEN 1 ELSE 0
Step == /\ pc >= 0 /\ pc < Len(Order)
        /\ LET m == Order[pc + 1] IN
              /\ eul' = Spread(mk[m], Force(m), eul)
              /\ nspread' = [nspread EXCEPT ![m] = @ + 1]
        /\ pc' = pc + 1 /\ UNCHANGED <<mk, cu, mf>>
Next == Choose \/ Step
Spec == Init /\ [][Next]_vars

U == [c \in CellsG |-> IF c = cu THEN 1 ELSE 0]
Coord(a) == [c \in CellsG |-> c[a] * M]                            \* cell-centre coordinate, units h/M (origin h/2)
Pos(m, a) == m.i[a] * M + m.r[a]
Total(e) == FoldFunction(LAMBDA x, y : x + y, 0, e)

\* ---- C06 ----------------------------------------------------------------------------------
PartitionOfUnity == \A k \in 1..2 : Interp(mk[k], [c \in CellsG |-> 1]) = SD
NonNegative      == \A k \in 1..2 : \A j \in Win : Weight(mk[k], j) >= 0
\* affine fields (the coordinate field) are reproduced exactly when the first moment vanishes
Affine == FirstMoment => \A k \in 1..2 : \A a \in Axes : Interp(mk[k], Coord(a)) = SD * Pos(mk[k], a)
\* the index is one of the allowed ones and the window covers the four nearest cells per direction
Support == \A k \in 1..2 : \A j \in Win : \A a \in Axes :
              LET d == Dist1(mk[k].i[a], mk[k].r[a], mk[k].sh[a], j[a])
              IN  (d < -2 * M \/ d > 2 * M) => W1(mk[k].r[a], mk[k].sh[a], j[a]) = 0

\* ---- C07 ----------------------------------------------------------------------------------
\* adjointness, for the spreads performed so far:  sum_c eul[c] u[c] = sum_m nspread[m] F_m (I u)_m
Adjoint == FoldFunction(LAMBDA x, y : x + y, 0, [c \in CellsG |-> eul[c] * U[c]])
             = nspread[1] * Force(1) * Interp(mk[1], U) + nspread[2] * Force(2) * Interp(mk[2], U)
\* total force: grid integral of the spread force = total marker force (partition of unity)
ForceConserved == Total(eul) = SD * (nspread[1] * Force(1) + nspread[2] * Force(2))
\* torque about the origin, each axis: first moment preserved when the kernel's first moment vanishes
TorqueConserved == FirstMoment => \A a \in Axes :
      FoldFunction(LAMBDA x, y : x + y, 0, [c \in CellsG |-> eul[c] * Coord(a)[c]])
        = SD * (nspread[1] * Force(1) * Pos(mk[1], a) + nspread[2] * Force(2) * Pos(mk[2], a))

\* contributions to each cell of the spread field, for the replay (symbolic: evaluated with the closed-form kernel)
Contrib(c) == {[m |-> m, j |-> j, n |-> nspread'[m]] : m \in {x \in 1..2 : Force(x) # 0}, j \in {y \in Win : CellOf(mk[mf], y) = c}}
EmitLast == (pc = Len(Order) - 1 /\ pc' = Len(Order)) =>
     PrintT(<<"EMIT", ToJson([mk |-> mk, mf |-> mf, order |-> Order,
                              cells |-> {[c |-> c, w |-> Contrib(c)] : c \in {x \in CellsG : eul'[x] # 0}}])>>)

\* ---- 1-D laws of the table itself (checked once) ---------------------------------------------
RowSum(r) == Tab[r + 1][1] + Tab[r + 1][2] + Tab[r + 1][3] + Tab[r + 1][4]
RowMom(r) == (-M - r) * Tab[r + 1][1] + (-r) * Tab[r + 1][2] + (M - r) * Tab[r + 1][3] + (2 * M - r) * Tab[r + 1][4]
TableLaws == /\ \A r \in 0..(M - 1) : RowSum(r) = S /\ \A j \in 1..4 : Tab[r + 1][j] >= 0
             /\ Tab[1][4] = 0 /\ Tab[1][1] = Tab[1][3]                     \* w(2) = 0, w(-1) = w(1) on a centre
             /\ FirstMoment => \A r \in 0..(M - 1) : RowMom(r) = 0
ASSUME TableLaws
=============================================================================
