------------------------------ MODULE StableDt ------------------------------
(***************************************************************************)
(* C16 (a): selection of the stable time step.                             *)
(*                                                                         *)
(*   dt = prefac * min( cfl * h / (m + tol) ,  0.9 h^2 / (2 D nu) )        *)
(*                                                                         *)
(* m = max over cells of sum_k |u_k| ; tol = 10 machine epsilons guards    *)
(* the advective denominator against m = 0.  The diffusive limit has no    *)
(* guard (nu > 0).  GuardPlacement = "added_to_limit" is the design        *)
(* variant in which tol is ADDED to the diffusive limit; TLC refutes the   *)
(* diffusion bound for it whenever tol is comparable to or larger than     *)
(* the limit (fine grids in single precision).                             *)
(* All quantities are exact rationals (Arith.tla); the instances are       *)
(* concrete single-precision-scale numbers (tol = 10 * 2^-23).             *)
(***************************************************************************)
EXTENDS Arith, TLC, Json

CONSTANTS GuardPlacement,     \* "none" (intended) | "added_to_limit"
          Hs, Nus, Cfls, Ms, Prefacs, Dims, Tol      \* finite sets of rationals <<n, d>>; Tol a rational

VARIABLE cs
Init == \E h \in Hs, nu \in Nus, cfl \in Cfls, m \in Ms, pf \in Prefacs, d \in Dims :
            cs = [h |-> h, nu |-> nu, cfl |-> cfl, m |-> m, pf |-> pf, d |-> d]
Next == UNCHANGED cs
Spec == Init /\ [][Next]_cs

AdvLimit(c)  == RDiv(RMul(c.cfl, c.h), RAdd(c.m, Tol))
DiffLimit(c) == LET base == RDiv(RMul(Q(9, 10), RMul(c.h, c.h)), RMul(RInt(2 * c.d), c.nu))
                IN  IF GuardPlacement = "none" THEN base ELSE RAdd(base, Tol)
Dt1(c) == RMin(AdvLimit(c), DiffLimit(c))
Dt(c)  == RMul(c.pf, Dt1(c))

Positive       == RPos(Dt(cs))
LinearInPrefac == REq(Dt(cs), RMul(cs.pf, Dt1(cs)))      \* by construction; kept as the documented law
\* dt * m / h <= cfl * prefac <= cfl
AdvBound  == RLe(RDiv(RMul(Dt(cs), cs.m), cs.h), cs.cfl)
\* nu * dt / h^2 <= 0.9 / (2 D)
DiffBound == RLe(RDiv(RMul(cs.nu, Dt(cs)), RMul(cs.h, cs.h)), Q(9, 20 * cs.d))

\* which regime an instance is in (vacuity: all three must occur)
GuardDominant == RLt(RDiv(RMul(Q(9, 10), RMul(cs.h, cs.h)), RMul(RInt(2 * cs.d), cs.nu)), Tol)
NoDominant == ~GuardDominant

EmitState == PrintT(<<"EMIT", ToJson([cs |-> cs, dt |-> Dt(cs), dominant |-> GuardDominant])>>)
=============================================================================
