-------------------------- MODULE MC_Conservation ---------------------------
(***************************************************************************)
(* C04 at operator level.                                                  *)
(*  (a) conservation form: the flux leaving cell c through its front face  *)
(*      along axis k equals the flux entering c + e_k through its back     *)
(*      face, for EVERY pattern of velocity signs (ties included);         *)
(*  (b) sums: advection, diffusion, forcing-curl and filter steps leave    *)
(*      the grid sum unchanged when the field (forcing) vanishes within    *)
(*      Margin cells of the boundary, for any velocity.  The sum is linear *)
(*      in the transported field for a fixed velocity, so unit impulses at *)
(*      every admissible cell cover all fields; the velocity is enumerated *)
(*      on the only cells the impulse can see (two either side, per axis). *)
(* Margin is a CONSTANT: TLC refutes the sum law for a margin that is too  *)
(* small, which is how the "reach of one step" is derived, not assumed.    *)
(***************************************************************************)
EXTENDS Stencils, TLC, Json

CONSTANTS Margin,        \* fields vanish at cells of depth < Margin (0-based distance to the boundary)
          UVals,         \* velocity samples
          Kinds,         \* which families of cases to generate (subset of {"face","adv","diff","curl","filter"})
          EmitEvery, EmitPhase,   \* emission of a 1/EmitEvery sample of the cases (all ties always)
          BackVariant    \* "doc" (documented upwinding) | "ge" (ties resolved the other way): control

VARIABLE cs              \* a case: [kind, k, c0, w]  w = values on the line through c0 along axis k
Rec(kind, k, c0, w) == [kind |-> kind, k |-> k, c0 |-> c0, w |-> w]

Base == IF D = 2 THEN <<2, 2>> ELSE <<2, 2, 2>>
Line4 == [1..4 -> -1..1]
Support == {c \in Cells : InInterior(c, Margin)}
Line5 == [(-2)..2 -> UVals]

Init == \/ "face" \in Kinds /\ \E k \in Axes, wf \in Line4, wu \in Line4 : cs = Rec("face", k, Base, <<wf, wu>>)
        \/ "adv" \in Kinds /\ \E k \in Axes, c0 \in Support, wu \in Line5 : cs = Rec("adv", k, c0, wu)
        \/ "diff" \in Kinds /\ \E c0 \in Support : cs = Rec("diff", 1, c0, <<>>)
        \/ "curl" \in Kinds /\ \E k \in Axes, c0 \in Support : cs = Rec("curl", k, c0, <<>>)
        \/ IF D = 3 /\ "filter" \in Kinds THEN \E c0 \in Support, n \in 1..2, ty \in {"multiplicative", "convolution"} :
                             cs = Rec("filter", n, c0, ty)
                    ELSE FALSE
Next == UNCHANGED cs
Spec == Init /\ [][Next]_cs

Imp(c0) == [c \in Cells |-> IF c = c0 THEN 1 ELSE 0]
\* field / velocity living on the line through c0 along axis k (offsets lo..hi), zero elsewhere
OnLine(c0, k, w, lo, hi) ==
    [c \in Cells |-> IF \E n \in lo..hi : c = Sh(c0, k, n)
                     THEN w[CHOOSE n \in lo..hi : c = Sh(c0, k, n)] ELSE 0]

\* ---- (a) face identity ------------------------------------------------------------
BackV(f, u, c, k) ==
    IF BackVariant = "doc" THEN Back6(f, u, c, k)
    ELSE IF u[c] + u[Sh(c, k, -1)] >= 0          \* wrong tie handling
         THEN 2 * G(f, u, c) + 5 * G(f, u, Sh(c, k, -1)) - G(f, u, Sh(c, k, -2))
         ELSE 2 * G(f, u, Sh(c, k, -1)) + 5 * G(f, u, c) - G(f, u, Sh(c, k, 1))
FaceIdentity ==
    cs.kind = "face" =>
       LET f == OnLine(Sh(cs.c0, cs.k, -1), cs.k, [n \in 0..3 |-> cs.w[1][n + 1]], 0, 3)
           u == OnLine(Sh(cs.c0, cs.k, -1), cs.k, [n \in 0..3 |-> cs.w[2][n + 1]], 0, 3)
       IN  Front6(f, u, cs.c0, cs.k) = BackV(f, u, Sh(cs.c0, cs.k, 1), cs.k)

\* ---- (b) sums -----------------------------------------------------------------------
VelOnAxis(k, u) == [j \in 1..D |-> IF j = k THEN u ELSE Zero]
SumLaw ==
  CASE cs.kind = "adv"  ->
         LET u == OnLine(cs.c0, cs.k, cs.w, -2, 2)
         IN  Total(AdvStep6(Imp(cs.c0), VelOnAxis(cs.k, u), 3)) = 6
    [] cs.kind = "diff" -> Total(DiffStep(Imp(cs.c0), 3)) = 1
    [] cs.kind = "curl" ->
         LET F == VelOnAxis(cs.k, Imp(cs.c0))
         IN  IF D = 2 THEN Total(UpdateVort2(Zero, F, 3)) = 0
                      ELSE \A j \in 1..3 : Total(UpdateVort3(VZero, F, 3)[j]) = 0
    [] cs.kind = "filter" ->
         Total(Filter(cs.w, Imp(cs.c0), Zero, cs.k, 1).f) = Pow4(3 * cs.k)
    [] OTHER -> TRUE

\* ---- emission of cases for the replay -------------------------------------------------
RECURSIVE CodeOf(_, _, _)
CodeOf(w, lo, hi) == IF lo > hi THEN 0 ELSE (w[lo] + 2) + 5 * CodeOf(w, lo + 1, hi)
CaseCode == CASE cs.kind = "face" -> CodeOf(cs.w[1], 1, 4) + 7 * CodeOf(cs.w[2], 1, 4)
              [] cs.kind = "adv"  -> CodeOf(cs.w, -2, 2)
              [] OTHER -> EmitPhase
IsTie == cs.kind = "face" /\ cs.w[2][2] + cs.w[2][3] = 0
FaceF == OnLine(Sh(cs.c0, cs.k, -1), cs.k, [n \in 0..3 |-> cs.w[1][n + 1]], 0, 3)
FaceU == OnLine(Sh(cs.c0, cs.k, -1), cs.k, [n \in 0..3 |-> cs.w[2][n + 1]], 0, 3)
EmitState ==
    (CaseCode % EmitEvery = EmitPhase \/ IsTie) =>
       PrintT(<<"EMIT", ToJson([cs |-> cs, shape |-> Shape, margin |-> Margin,
                front6 |-> IF cs.kind = "face" THEN Front6(FaceF, FaceU, cs.c0, cs.k) ELSE 0])>>)

\* vacuity: the upwind tie and both branches must occur among the face cases
TieSeen == cs.kind = "face" /\ cs.w[2][2] + cs.w[2][3] = 0 /\ cs.w[2][2] # 0
NoTie   == ~TieSeen
=============================================================================
