---------------------------- MODULE TimeSteppers ----------------------------
(***************************************************************************)
(* Time-step kernels: Euler forward (advection, diffusion: see Stencils;   *)
(* vortex stretching here) and the SSP-RK3 vortex-stretching step.         *)
(* A(om) = p * (om . grad) u on Interior(1), zero on the ring: for a       *)
(* frozen velocity u it is LINEAR in om.                                   *)
(***************************************************************************)
EXTENDS Stencils

A(om, u, p)            == StretchFlux(VZero, om, u, p)
StretchEuler(om, u, p) == VEwSum(om, A(om, u, p))

VScale(a, v)  == [k \in 1..Len(v) |-> [c \in Cells |-> a * v[k][c]]]
VAdd(a, b)    == VEwSum(a, b)

\* Shu-Osher SSP-RK3 with step prefactor p; p3 is the prefactor used by the THIRD stage
\* (nominal scheme: p3 = p).  Result is returned times 12.
\*   u1 = om + A om ; u2 = 3/4 om + 1/4 (u1 + A u1) ; u3 = 1/3 om + 2/3 (u2 + A u2)
SSPRK3x12(om, u, p, p3) ==
    LET u1   == DeepV(VAdd(om, A(om, u, p)))
        u2x4 == DeepV(VAdd(VScale(3, om), VAdd(u1, A(u1, u, p))))
        s3   == DeepV(VAdd(u2x4, A(u2x4, u, p3)))
    IN  VAdd(VScale(4, om), VScale(2, s3))

\* the nominal third-order polynomial 12 (I + A + A^2/2 + A^3/6) om
Poly3x12(om, u, p) ==
    LET a1 == DeepV(A(om, u, p))
        a2 == DeepV(A(a1, u, p))
        a3 == DeepV(A(a2, u, p))
    IN  VAdd(VAdd(VScale(12, om), VScale(12, a1)), VAdd(VScale(6, a2), VScale(2, a3)))
=============================================================================
