----------------------------- MODULE Continuum ------------------------------
(***************************************************************************)
(* The continuous counterparts of the grid operators, on monomials.        *)
(*                                                                         *)
(* Coordinates: cell index i along an axis sits at x = (i - 1/2) h         *)
(* (SophT: positions start at h/2).  With X = 2 i - 1 (units of h/2) the   *)
(* monomial x^a y^b z^c is  (h/2)^(a+b+c) * X^a Y^b Z^c  and               *)
(*    d/dx   = (2/h)   d/dX,       d2/dx2 = (4/h^2) d2/dX2.                *)
(* All identities below are stated in X units, i.e. for h = 2; they are    *)
(* homogeneous in h, so they hold for every spacing (the harness replays   *)
(* them with h = 2^k).  An exponent vector e is indexed by PHYSICAL axis.  *)
(***************************************************************************)
EXTENDS Lattice

X(c, k) == 2 * c[Ax(k)] - 1

RECURSIVE Pw(_, _)
Pw(b, n) == IF n = 0 THEN 1 ELSE b * Pw(b, n - 1)

RECURSIVE MonoUpTo(_, _, _)
MonoUpTo(e, c, k) == IF k = 0 THEN 1 ELSE Pw(X(c, k), e[k]) * MonoUpTo(e, c, k - 1)
MonoAt(e, c) == MonoUpTo(e, c, D)
Mono(e)      == [c \in Cells |-> MonoAt(e, c)]

Dec(e, k)    == [e EXCEPT ![k] = @ - 1]
\* d/dX_k of the monomial, as a value at c
DMonoAt(e, k, c)  == IF e[k] = 0 THEN 0 ELSE e[k] * MonoAt(Dec(e, k), c)
\* d2/dX_k^2
D2MonoAt(e, k, c) == IF e[k] < 2 THEN 0 ELSE e[k] * (e[k] - 1) * MonoAt(Dec(Dec(e, k), k), c)

Deg(e) == IF D = 2 THEN e[1] + e[2] ELSE e[1] + e[2] + e[3]
Exps(n) == IF D = 2 THEN {<<a, b>> : a \in 0..n, b \in 0..n}
                    ELSE {<<a, b, c>> : a \in 0..n, b \in 0..n, c \in 0..n}
Monomials(n) == {e \in Exps(n) : Deg(e) <= n}
AddE(e1, e2) == [k \in 1..D |-> e1[k] + e2[k]]
=============================================================================
