------------------------------- MODULE Lattice -------------------------------
(***************************************************************************)
(* Uniform Cartesian grids of dimension 2 or 3 as SophT lays them out.     *)
(*                                                                         *)
(*  - a cell is a tuple in ARRAY order: <<y, x>> or <<z, y, x>>, 1-based;  *)
(*    x varies along the LAST array axis.                                  *)
(*  - a scalar field is a function Cells -> Int (values are lattice        *)
(*    integers, see DESIGN 3.2 carrier 1).                                 *)
(*  - a vector field is a sequence of D scalar fields indexed by the       *)
(*    PHYSICAL component 1 = x, 2 = y, 3 = z (SophT: vector_field[k-1]).   *)
(*  - physical axis k lives on array axis Ax(k) = D + 1 - k.               *)
(***************************************************************************)
EXTENDS Integers, Sequences, FiniteSets, Functions

CONSTANT Shape          \* <<NY, NX>> or <<NZ, NY, NX>>

D == Len(Shape)
ASSUME D \in {2, 3}

Cells == IF D = 2 THEN {<<i, j>> : i \in 1..Shape[1], j \in 1..Shape[2]}
                  ELSE {<<k, i, j>> : k \in 1..Shape[1], i \in 1..Shape[2], j \in 1..Shape[3]}

Axes  == 1..D                      \* physical axes: 1 = x, 2 = y, 3 = z
Ax(k) == D + 1 - k                 \* array position of physical axis k

\* neighbour of cell c at offset n along PHYSICAL axis k
Sh(c, k, n) == [c EXCEPT ![Ax(k)] = @ + n]

\* distance of a cell from the nearest face of the array (0 = boundary layer)
DistLo(c, a) == c[a] - 1
DistHi(c, a) == Shape[a] - c[a]
Depth(c) == LET S == {DistLo(c, a) : a \in 1..D} \cup {DistHi(c, a) : a \in 1..D}
            IN  CHOOSE m \in S : \A n \in S : m <= n

\* membership predicates (cheap for TLC) and the corresponding sets
InInterior(c, w) == \A a \in 1..D : c[a] > w /\ c[a] <= Shape[a] - w
InRing(c, w)     == ~InInterior(c, w)
Interior(w) == {c \in Cells : InInterior(c, w)}   \* cells at least w away from every face
Ring(w)     == Cells \ Interior(w)                 \* the boundary zone of width w

\* boundary zone along one physical axis only (used by the boundary-damping operator)
LoZone(k, w) == {c \in Cells : c[Ax(k)] <= w}
HiZone(k, w) == {c \in Cells : c[Ax(k)] > Shape[Ax(k)] - w}

Const(v)      == [c \in Cells |-> v]
Zero          == Const(0)
VConst(vs)    == [k \in 1..D |-> Const(vs[k])]
VZero         == [k \in 1..D |-> Zero]

\* whole-array update: closed-form value on a region, untouched elsewhere (frame condition)
OnRegion(R, out, Val(_)) == [c \in Cells |-> IF c \in R THEN Val(c) ELSE out[c]]
OnRing(w, out, Val(_))   == [c \in Cells |-> IF InRing(c, w) THEN Val(c) ELSE out[c]]

\* sum of a field over the grid (FoldFunction: CommunityModules, evaluated natively by TLC)
Total(f) == FoldFunction(LAMBDA a, b : a + b, 0, f)

\* conversion to nested sequences (array order) for JSON emission
Arr(f) == IF D = 2 THEN [i \in 1..Shape[1] |-> [j \in 1..Shape[2] |-> f[<<i, j>>]]]
          ELSE [k \in 1..Shape[1] |-> [i \in 1..Shape[2] |-> [j \in 1..Shape[3] |-> f[<<k, i, j>>]]]]
VArr(v) == [k \in 1..Len(v) |-> Arr(v[k])]

Abs(x) == IF x < 0 THEN -x ELSE x
Max2(a, b) == IF a >= b THEN a ELSE b
Min2(a, b) == IF a <= b THEN a ELSE b
=============================================================================
