---------------------------- MODULE CouplingInd ----------------------------
(***************************************************************************)
(* C10, unbounded form: the laws of Coupling.tla for ONE body as an        *)
(* inductive invariant over unbounded integers (any stiffness, damping,    *)
(* velocities, step sizes, history length).  Checked with Apalache:        *)
(*   Init => IndInv            (--init=Init    --inv=IndInv --length=0)    *)
(*   IndInv /\ Next => IndInv' (--init=IndInit --inv=IndInv --length=1)    *)
(***************************************************************************)
EXTENDS Integers

VARIABLES
    \* @type: Int;
    pm,
    \* @type: Int;
    vm,
    \* @type: Int;
    F,
    \* @type: Int;
    clk,
    \* @type: Int;
    u,
    \* @type: Int;
    v,
    \* @type: Int;
    ghostInt,
    \* @type: Int;
    ghostClk,
    \* @type: Int;
    pmAtEval,
    \* @type: Bool;
    fresh,
    \* @type: Int;
    K,
    \* @type: Int;
    C

Init == /\ pm = 0 /\ vm = 0 /\ F = 0 /\ clk = 0 /\ ghostInt = 0 /\ ghostClk = 0 /\ pmAtEval = 0 /\ fresh = FALSE
        /\ u \in Int /\ v \in Int /\ K \in Int /\ C \in Int

Evaluate == /\ vm' = u - v /\ F' = K * pm + C * (u - v) /\ pmAtEval' = pm /\ fresh' = TRUE
            /\ UNCHANGED <<pm, clk, u, v, ghostInt, ghostClk, K, C>>
ForcingStep == \E dt \in Int :
               /\ dt > 0
               /\ pm' = pm + dt * vm /\ clk' = clk + dt
               /\ ghostInt' = ghostInt + dt * vm /\ ghostClk' = ghostClk + dt /\ fresh' = FALSE
               /\ UNCHANGED <<vm, F, u, v, pmAtEval, K, C>>
MoveBody == \E x \in Int : v' = x /\ UNCHANGED <<pm, vm, F, clk, u, ghostInt, ghostClk, pmAtEval, fresh, K, C>>
ChangeFlow == \E x \in Int : u' = x /\ UNCHANGED <<pm, vm, F, clk, v, ghostInt, ghostClk, pmAtEval, fresh, K, C>>
Next == Evaluate \/ ForcingStep \/ MoveBody \/ ChangeFlow
\* design variant (negative control): evaluating also integrates -- the induction must FAIL
EvaluateBad == /\ vm' = u - v /\ F' = K * pm + C * (u - v) /\ pmAtEval' = pm /\ fresh' = TRUE /\ pm' = pm + (u - v)
               /\ UNCHANGED <<clk, u, v, ghostInt, ghostClk, K, C>>
NextBad == EvaluateBad \/ ForcingStep \/ MoveBody \/ ChangeFlow

IndInv == /\ pm = ghostInt /\ clk = ghostClk
          /\ F = K * pmAtEval + C * vm
          /\ (fresh => F = K * pm + C * vm)
\* any state satisfying the invariant (for the inductive step)
IndInit == /\ pm \in Int /\ vm \in Int /\ F \in Int /\ clk \in Int /\ u \in Int /\ v \in Int /\ ghostInt \in Int /\ ghostClk \in Int
           /\ pmAtEval \in Int /\ fresh \in BOOLEAN /\ K \in Int /\ C \in Int
           /\ IndInv
=============================================================================
