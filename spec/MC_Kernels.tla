----------------------------- MODULE MC_Kernels -----------------------------
(***************************************************************************)
(* The "kernel zoo": every public Eulerian-grid kernel as one atomic       *)
(* action on named arrays (C13).  State: six scalar fields s[1..6], four   *)
(* vector fields v[1..4], three integer parameters ps[1..3].  Pick fills   *)
(* ALL arrays (inputs, outputs = sentinels, bystanders) and chooses the    *)
(* next operation of OpList; Apply performs it.  Everything the operation  *)
(* does not name must stay unchanged -- that is the frame condition the    *)
(* replay checks on the real arrays.                                       *)
(*                                                                         *)
(* Bindings (which array plays which role) are fixed by the table in       *)
(* harness/kernels.py and documented per operation below.                  *)
(***************************************************************************)
EXTENDS TimeSteppers, TLC, Json

CONSTANTS Vals,         \* values of field cells, e.g. -3..3
          PVals,        \* values of scalar parameters
          Impulses,     \* TRUE: inputs are unit impulses instead of random fields
          OnlyOps       \* {} = every operation, otherwise the names to keep

VARIABLES op, s, v, ps, i, pc
vars == <<op, s, v, ps, i, pc>>

NS == 6
NV == 4

O(name, reset, w, n, ty) == [name |-> name, reset |-> reset, w |-> w, n |-> n, ty |-> ty]
o(name) == O(name, FALSE, 0, 0, "")

CommonOps == <<
    o("ew_sum"), o("ew_sum_inplace"), o("ew_sum_vec"), o("saxpby"), o("saxpby_vec"), o("copy"),
    o("set_fixed"), o("set_fixed_vec"), o("add_fixed"), o("add_fixed_vec"), o("add_fixed_vec_inplace"),
    o("cplx"),
    O("set_bdry", FALSE, 1, 0, ""), O("set_bdry", FALSE, 2, 0, ""),
    O("set_bdry_vec", FALSE, 1, 0, ""), O("set_bdry_vec", FALSE, 2, 0, ""),
    O("diff_flux", TRUE, 0, 0, ""), O("diff_flux", FALSE, 0, 0, ""),
    o("update_vort"), o("update_vort_pen"),
    o("adv_flux"), o("adv_step"), o("diff_step") >>

Ops2 == CommonOps \o <<
    O("outplane_curl", TRUE, 0, 0, ""), O("outplane_curl", FALSE, 0, 0, ""), o("inplane_curl") >>

Ops3 == CommonOps \o <<
    o("cross"),
    O("diff_flux_vec", TRUE, 0, 0, ""), O("diff_flux_vec", FALSE, 0, 0, ""),
    O("curl3", TRUE, 0, 0, ""), O("curl3", FALSE, 0, 0, ""),
    O("div3", TRUE, 0, 0, ""), O("div3", FALSE, 0, 0, ""),
    o("stretch_flux"), o("stretch_euler"), o("stretch_ssprk3"),
    o("adv_step_vec"), o("diff_step_vec"),
    O("filter", FALSE, 1, 1, "multiplicative"), O("filter", FALSE, 1, 2, "multiplicative"),
    O("filter", FALSE, 1, 1, "convolution"), O("filter", FALSE, 1, 2, "convolution"),
    O("filter", FALSE, 2, 1, "multiplicative"),
    O("filter_vec", FALSE, 1, 1, "multiplicative"), O("filter_vec", FALSE, 1, 1, "convolution") >>

AllOps == IF D = 2 THEN Ops2 ELSE Ops3
Keep(x) == OnlyOps = {} \/ x.name \in OnlyOps
OpList == SelectSeq(AllOps, Keep)

\* random fields; about one in six is identically zero (degenerate inputs are admissible inputs)
RandField  == IF RandomElement(1..6) = 1 THEN Zero ELSE [c \in Cells |-> RandomElement(Vals)]
RandVField == [k \in 1..D |-> RandField]
\* unit impulse in one random cell (a basis vector of the input space)
ImpField   == LET c0 == RandomElement(Cells) IN [c \in Cells |-> IF c = c0 THEN 1 ELSE 0]
ImpVField  == LET k0 == RandomElement(1..D) c0 == RandomElement(Cells)
              IN  [k \in 1..D |-> [c \in Cells |-> IF k = k0 /\ c = c0 THEN 1 ELSE 0]]

Init == /\ op = o("none") /\ i = 1 /\ pc = "pick"
        /\ s = [j \in 1..NS |-> Zero] /\ v = [j \in 1..NV |-> VZero] /\ ps = <<0, 0, 0>>

Pick == /\ pc = "pick" /\ i <= Len(OpList)
        /\ op' = OpList[i]
        /\ s'  = [j \in 1..NS |-> IF Impulses /\ j > 1 THEN ImpField ELSE RandField]
        /\ v'  = [j \in 1..NV |-> IF Impulses /\ j > 1 THEN ImpVField ELSE RandVField]
        /\ ps' = [j \in 1..3 |-> RandomElement(PVals)]
        /\ pc' = "apply" /\ UNCHANGED i

SetS(j, val) == [s EXCEPT ![j] = val]
SetV(j, val) == [v EXCEPT ![j] = val]
R(ss, vv) == [s |-> ss, v |-> vv]

\* vector step helpers (3-D): the same scalar step per component, one shared flux buffer that
\* ends up holding the LAST (z) component's flux
VAdvStep6(f, vel, p)  == [k \in 1..D |-> AdvStep6(f[k], vel, p)]
VDiffStep(f, p)       == [k \in 1..D |-> DiffStep(f[k], p)]

Res ==
  LET p == ps[1] q == ps[2] IN
  CASE op.name = "ew_sum"          -> R(SetS(1, EwSum(s[2], s[3])), v)
    [] op.name = "ew_sum_inplace"  -> R(SetS(1, EwSum(s[1], s[2])), v)
    [] op.name = "ew_sum_vec"      -> R(s, SetV(1, VEwSum(v[2], v[3])))
    [] op.name = "saxpby"          -> R(SetS(1, EwSaxpby(p, s[2], q, s[3])), v)
    [] op.name = "saxpby_vec"      -> R(s, SetV(1, VEwSaxpby(p, v[2], q, v[3])))
    [] op.name = "copy"            -> R(SetS(1, EwCopy(s[2])), v)
    [] op.name = "set_fixed"       -> R(SetS(1, SetFixed(p)), v)
    [] op.name = "set_fixed_vec"   -> R(s, SetV(1, VSetFixed(ps)))
    [] op.name = "add_fixed"       -> R(SetS(1, AddFixed(s[2], p)), v)
    [] op.name = "add_fixed_vec"   -> R(s, SetV(1, VAddFixed(v[2], ps)))
    [] op.name = "add_fixed_vec_inplace" -> R(s, SetV(1, VAddFixed(v[1], ps)))
    [] op.name = "cplx"            -> R([s EXCEPT ![1] = CplxRe(s[3], s[4], s[5], s[6]),
                                                  ![2] = CplxIm(s[3], s[4], s[5], s[6])], v)
    [] op.name = "cross"           -> R(s, SetV(1, Cross(v[2], v[3])))
    [] op.name = "set_bdry"        -> R(SetS(1, SetAtBoundaries(op.w, s[1], p)), v)
    [] op.name = "set_bdry_vec"    -> R(s, SetV(1, VSetAtBoundaries(op.w, v[1], ps)))
    [] op.name = "diff_flux"       -> R(SetS(1, DiffusionFlux(s[1], s[2], p, op.reset)), v)
    [] op.name = "diff_flux_vec"   -> R(s, SetV(1, VDiffusionFlux(v[1], v[2], p, op.reset)))
    [] op.name = "outplane_curl"   -> R(s, SetV(1, OutplaneCurl2(v[1], s[1], p, op.reset)))
    [] op.name = "inplane_curl"    -> R(SetS(1, InplaneCurl2(s[1], v[1], p)), v)
    [] op.name = "curl3"           -> R(s, SetV(1, Curl3(v[1], v[2], p, op.reset)))
    [] op.name = "div3"            -> R(SetS(1, Div3(s[1], v[1], p, op.reset)), v)
    [] op.name = "update_vort"     -> IF D = 2 THEN R(SetS(1, UpdateVort2(s[1], v[1], p)), v)
                                               ELSE R(s, SetV(1, UpdateVort3(v[1], v[2], p)))
    [] op.name = "update_vort_pen" -> IF D = 2 THEN R(SetS(1, UpdateVortPen2(s[1], v[1], v[2], p)), v)
                                               ELSE R(s, SetV(1, UpdateVortPen3(v[1], v[2], v[3], p)))
    [] op.name = "stretch_flux"    -> R(s, SetV(1, StretchFlux(v[1], v[2], v[3], p)))
    [] op.name = "stretch_euler"   -> R(s, [v EXCEPT ![1] = StretchEuler(v[1], v[2], p),
                                                      ![3] = A(v[1], v[2], p)])
       \* SSP-RK3: v[1] vorticity (result x 12), v[2] velocity; scratch v[3], v[4] unspecified
    [] op.name = "stretch_ssprk3"  -> R(s, SetV(1, SSPRK3x12(v[1], v[2], p, p)))
       \* results x 6:
    [] op.name = "adv_flux"        -> R(SetS(1, AdvFlux6(s[1], s[2], v[1], p)), v)
    [] op.name = "adv_step"        -> R([s EXCEPT ![1] = AdvStep6(s[1], v[1], p),
                                                  ![2] = AdvStepBuf6(s[1], v[1], p)], v)
    [] op.name = "adv_step_vec"    -> R(SetS(2, AdvStepBuf6(v[1][D], v[2], p)),
                                        SetV(1, VAdvStep6(v[1], v[2], p)))
    [] op.name = "diff_step"       -> R([s EXCEPT ![1] = DiffStep(s[1], p),
                                                  ![2] = DiffStepBuf(s[1], p)], v)
    [] op.name = "diff_step_vec"   -> R(SetS(2, DiffStepBuf(v[1][D], p)), SetV(1, VDiffStep(v[1], p)))
       \* filters (3-D): s[1] field (x 4^(3n)), s[2] flux buffer, s[3] field buffer (both x 4^(3n))
    [] op.name = "filter"          -> LET r == Filter(op.ty, s[1], s[2], op.n, op.w)
                                      IN  R([s EXCEPT ![1] = r.f, ![2] = r.flux, ![3] = r.buf], v)
       \* vector filter: components x, y, z in turn through the same two buffers
    [] op.name = "filter_vec"      -> LET r1 == Filter(op.ty, v[1][1], s[2], op.n, op.w)
                                          r2 == Filter(op.ty, v[1][2], r1.flux, op.n, op.w)
                                          r3 == Filter(op.ty, v[1][3], r2.flux, op.n, op.w)
                                      IN  R([s EXCEPT ![2] = r3.flux, ![3] = r3.buf],
                                            SetV(1, <<r1.f, r2.f, r3.f>>))

Apply == /\ pc = "apply"
         /\ LET r == Res IN s' = r.s /\ v' = r.v
         /\ i' = i + 1 /\ pc' = "pick" /\ UNCHANGED <<op, ps>>

Done == pc = "pick" /\ i > Len(OpList) /\ UNCHANGED vars
Next == Pick \/ Apply \/ Done
Spec == Init /\ [][Next]_vars

SArr(ss) == [j \in 1..NS |-> Arr(ss[j])]
VVArr(vv) == [j \in 1..NV |-> VArr(vv[j])]

Emit == pc = "apply" =>
          PrintT(<<"EMIT", ToJson([op |-> op, ps |-> ps, shape |-> Shape,
                                   pre  |-> [s |-> SArr(s),  v |-> VVArr(v)],
                                   post |-> [s |-> SArr(s'), v |-> VVArr(v')]])>>)

\* ---- frame conditions checked by TLC on every Apply step (action property) -------------
\* what an operation may write: a set of scalar indices and vector indices
WritesS == CASE op.name \in {"ew_sum", "ew_sum_inplace", "saxpby", "copy", "set_fixed", "add_fixed",
                             "set_bdry", "diff_flux", "inplane_curl", "div3", "adv_flux"} -> {1}
             [] op.name \in {"cplx", "adv_step", "diff_step"} -> {1, 2}
             [] op.name \in {"adv_step_vec", "diff_step_vec"} -> {2}
             [] op.name = "filter" -> {1, 2, 3}
             [] op.name = "filter_vec" -> {2, 3}
             [] op.name = "update_vort" /\ D = 2 -> {1}
             [] op.name = "update_vort_pen" /\ D = 2 -> {1}
             [] OTHER -> {}
Frame == [][pc = "apply" => \A j \in 1..NS : j \notin WritesS => s'[j] = s[j]]_vars
=============================================================================
