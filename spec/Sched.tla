-------------------------------- MODULE Sched --------------------------------
(***************************************************************************)
(* C15: one kernel call as per-cell micro-steps under ARBITRARY            *)
(* interleaving (any number of threads, any loop schedule):                *)
(*    Load(c)   read the stencil of cell c from memory into a register     *)
(*    Store(c)  write the register into the output cell c                  *)
(* Memory: an input array `inp`, an output array `out`; Aliased = TRUE     *)
(* means the call binds the SAME memory as input and output.  ReadOffs is  *)
(* the set of offsets at which the kernel reads `inp` (0 = centre).        *)
(* The kernel computes  out[c] := sum of inp at the read offsets  (+ the   *)
(* previous out[c] when SelfRead, a centre-only read of the output).       *)
(* Deterministic: when every cell has been stored, memory equals the       *)
(* atomic whole-array semantics (all loads before all stores) that every   *)
(* other module of this specification uses for a kernel call.              *)
(* SafeClass is the predicate the call monitor (TraceKernels) enforces;    *)
(* TLC shows Deterministic holds exactly for the safe classes.             *)
(***************************************************************************)
EXTENDS Integers, FiniteSets, TLC

CONSTANTS N, ReadOffs, Aliased, SelfRead, Vals

VARIABLES inp, out, reg, st, inp0, out0
vars == <<inp, out, reg, st, inp0, out0>>
Cells == 1..N
Interior == {c \in Cells : \A o \in ReadOffs : c + o \in Cells}

Mem(i) == IF Aliased THEN out ELSE inp              \* where reads of the input go
RECURSIVE SumOffs(_, _, _)
SumOffs(a, c, S) == IF S = {} THEN 0 ELSE LET o == CHOOSE x \in S : TRUE IN a[c + o] + SumOffs(a, c, S \ {o})

Init == /\ inp \in [Cells -> Vals] /\ out \in [Cells -> Vals]
        /\ (Aliased => inp = out)
        /\ reg = [c \in Cells |-> 0] /\ st = [c \in Cells |-> "idle"]
        /\ inp0 = inp /\ out0 = out
Load(c)  == /\ c \in Interior /\ st[c] = "idle"
            /\ reg' = [reg EXCEPT ![c] = SumOffs(Mem(0), c, ReadOffs) + (IF SelfRead THEN out[c] ELSE 0)]
            /\ st' = [st EXCEPT ![c] = "loaded"] /\ UNCHANGED <<inp, out, inp0, out0>>
Store(c) == /\ st[c] = "loaded"
            /\ out' = [out EXCEPT ![c] = reg[c]]
            /\ inp' = IF Aliased THEN out' ELSE inp
            /\ st' = [st EXCEPT ![c] = "stored"] /\ UNCHANGED <<reg, inp0, out0>>
Next == \E c \in Cells : Load(c) \/ Store(c)
Spec == Init /\ [][Next]_vars

Atomic == [c \in Cells |-> IF c \in Interior
                           THEN SumOffs(IF Aliased THEN out0 ELSE inp0, c, ReadOffs) + (IF SelfRead THEN out0[c] ELSE 0)
                           ELSE out0[c]]
Finished == \A c \in Interior : st[c] = "stored"
Deterministic == Finished => out = Atomic
InputsIntact  == ~Aliased => inp = inp0
\* the class the monitor accepts: an output may coincide with an input only if that input is read at the centre only
SafeClass == ~Aliased \/ ReadOffs \subseteq {0}
=============================================================================
