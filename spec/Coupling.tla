------------------------------ MODULE Coupling -------------------------------
(***************************************************************************)
(* C10: the virtual-boundary (penalty immersed boundary) feedback of one   *)
(* or several bodies sharing one Eulerian forcing field.                   *)
(*                                                                         *)
(* Per body b (one representative marker component; the law is identical   *)
(* and independent for every marker and component):                        *)
(*    pm[b]  accumulated position mismatch  (the "integral")               *)
(*    vm[b]  velocity mismatch of the LAST evaluation                      *)
(*    F[b]   marker force of the last evaluation                           *)
(*    clk[b] forcing clock                                                 *)
(* Environment: flow velocity u at the marker, body velocity v[b].         *)
(* Actions = public calls:                                                 *)
(*    Evaluate(b)       interaction on the Lagrangian grid (also the first *)
(*                      half of a full interaction and of the body-force   *)
(*                      evaluation)                                        *)
(*    Interact(b)       full interaction: Evaluate, then spread into the   *)
(*                      shared field (accumulate, or overwrite in reset    *)
(*                      mode)                                              *)
(*    ForcingStep(b,dt) Euler-forward update of the integral with the      *)
(*                      mismatch of the last evaluation, however stale     *)
(*    MoveBody, ChangeFlow, FlowStep (consumes and zeroes the field)       *)
(* Ghost variables record what the laws quantify over.                     *)
(***************************************************************************)
EXTENDS Integers, Sequences, FiniteSets, TLC, Json

CONSTANTS Bodies,           \* e.g. {1, 2}
          K, C,             \* stiffness and damping (already scaled by spacing^(D-1))
          Vals, Dts,        \* velocities and step sizes
          ResetMode,        \* TRUE: Interact overwrites the shared field
          MaxSteps,         \* bound on the history length
          IntegrateOnEvaluate,  \* FALSE (intended); TRUE = variant in which evaluating also integrates
          KeepTrail             \* TRUE only for emission runs: carry the whole behaviour as a history variable

VARIABLES pm, vm, F, clk, u, v, eul, ghostInt, ghostClk, pmAtEval, fresh, n, last, trail
vars == <<pm, vm, F, clk, u, v, eul, ghostInt, ghostClk, pmAtEval, fresh, n, last, trail>>

Init == /\ pm = [b \in Bodies |-> 0] /\ vm = [b \in Bodies |-> 0] /\ F = [b \in Bodies |-> 0]
        /\ clk = [b \in Bodies |-> 0] /\ u \in Vals /\ v \in [Bodies -> Vals]
        /\ eul = <<>> /\ ghostInt = [b \in Bodies |-> 0] /\ ghostClk = [b \in Bodies |-> 0]
        /\ pmAtEval = [b \in Bodies |-> 0] /\ fresh = [b \in Bodies |-> FALSE] /\ n = 0
        /\ last = [act |-> "init", b |-> 0, dt |-> 0]
        /\ trail = <<>>

EvalUpdate(b) ==
    /\ vm' = [vm EXCEPT ![b] = u - v[b]]
    /\ F'  = [F EXCEPT ![b] = K * pm[b] + C * (u - v[b])]
    /\ pm' = IF IntegrateOnEvaluate THEN [pm EXCEPT ![b] = @ + (u - v[b])] ELSE pm
    /\ pmAtEval' = [pmAtEval EXCEPT ![b] = pm[b]]
    /\ fresh' = [fresh EXCEPT ![b] = TRUE]

Evaluate(b) == /\ n < MaxSteps /\ EvalUpdate(b)
               /\ n' = n + 1 /\ last' = [act |-> "evaluate", b |-> b, dt |-> 0]
               /\ UNCHANGED <<clk, u, v, eul, ghostInt, ghostClk>>

Interact(b) == /\ n < MaxSteps /\ EvalUpdate(b)
               /\ eul' = IF ResetMode THEN << <<b, F'[b]>> >> ELSE Append(eul, <<b, F'[b]>>)
               /\ n' = n + 1 /\ last' = [act |-> "interact", b |-> b, dt |-> 0]
               /\ UNCHANGED <<clk, u, v, ghostInt, ghostClk>>

ForcingStep(b, dt) ==
               /\ n < MaxSteps
               /\ pm' = [pm EXCEPT ![b] = @ + dt * vm[b]]
               /\ clk' = [clk EXCEPT ![b] = @ + dt]
               /\ ghostInt' = [ghostInt EXCEPT ![b] = @ + dt * vm[b]]
               /\ ghostClk' = [ghostClk EXCEPT ![b] = @ + dt]
               /\ fresh' = [fresh EXCEPT ![b] = FALSE]
               /\ n' = n + 1 /\ last' = [act |-> "step", b |-> b, dt |-> dt]
               /\ UNCHANGED <<vm, F, u, v, eul, pmAtEval>>

MoveBody(b) == /\ n < MaxSteps /\ \E x \in Vals : x # v[b] /\ v' = [v EXCEPT ![b] = x]
               /\ n' = n + 1 /\ last' = [act |-> "move", b |-> b, dt |-> 0]
               /\ UNCHANGED <<pm, vm, F, clk, u, eul, ghostInt, ghostClk, pmAtEval, fresh>>
ChangeFlow  == /\ n < MaxSteps /\ \E x \in Vals : x # u /\ u' = x
               /\ n' = n + 1 /\ last' = [act |-> "flow", b |-> 0, dt |-> 0]
               /\ UNCHANGED <<pm, vm, F, clk, v, eul, ghostInt, ghostClk, pmAtEval, fresh>>
FlowStep    == /\ n < MaxSteps /\ eul # <<>> /\ eul' = <<>>
               /\ n' = n + 1 /\ last' = [act |-> "flowstep", b |-> 0, dt |-> 0]
               /\ UNCHANGED <<pm, vm, F, clk, u, v, ghostInt, ghostClk, pmAtEval, fresh>>

Snap == [last |-> last', u |-> u', v |-> v', pm |-> pm', vm |-> vm', F |-> F', clk |-> clk', eul |-> eul']
Act  == \/ \E b \in Bodies : Evaluate(b) \/ Interact(b) \/ MoveBody(b) \/ \E dt \in Dts : ForcingStep(b, dt)
        \/ ChangeFlow \/ FlowStep
Next == Act /\ trail' = IF KeepTrail THEN Append(trail, Snap) ELSE trail
Spec == Init /\ [][Next]_vars

\* ---- C10 ------------------------------------------------------------------------------------
\* the integral is the Euler-forward sum over exactly the dt passed so far; the clock their sum
IntegralLaw == \A b \in Bodies : pm[b] = ghostInt[b] /\ clk[b] = ghostClk[b]
\* the marker force of the last evaluation is the PI law on the integral at that moment
PILaw == \A b \in Bodies : F[b] = K * pmAtEval[b] + C * vm[b]
\* ... and, as long as no forcing step intervened, on the current integral
PIFresh == \A b \in Bodies : fresh[b] => F[b] = K * pm[b] + C * vm[b]
\* evaluations never change the integral; the interaction never touches flow velocity or body state
EvalKeepsIntegral == [][last'.act \in {"evaluate", "interact"} => pm' = pm]_vars
FrameCond == [][last'.act \in {"evaluate", "interact", "step"} => (u' = u /\ v' = v)]_vars
\* bodies sharing the field superpose (accumulate) / the last interaction wins (reset)
RECURSIVE SumFor(_, _)
SumFor(s, b) == IF s = <<>> THEN 0 ELSE (IF Head(s)[1] = b THEN Head(s)[2] ELSE 0) + SumFor(Tail(s), b)
Superpose == ResetMode => Len(eul) <= 1
\* the shared field only ever changes by an interaction (adds the CURRENT force of that body) or a flow step
FieldLaw == [][ \/ eul' = eul
                \/ (last'.act = "interact" /\ eul' = (IF ResetMode THEN <<>> ELSE eul) \o << <<last'.b, F'[last'.b]>> >>)
                \/ (last'.act = "flowstep" /\ eul' = <<>>) ]_vars

\* emission of complete behaviours for the replay (state constraint; needs KeepTrail)
EmitTrail == n = MaxSteps => PrintT(<<"EMIT", ToJson([u0 |-> trail[1].u, trail |-> trail])>>)
=============================================================================
