------------------------------ MODULE Stencils ------------------------------
(***************************************************************************)
(* Every Eulerian-grid operator of SophT as a WHOLE-ARRAY operator:        *)
(* closed-form value on its documented region, untouched elsewhere.        *)
(* Written from the documentation / the mathematics (finite differences on *)
(* a uniform grid, x along the last array axis), not from the kernels.     *)
(*                                                                         *)
(* Values are lattice integers.  Operators with rational coefficients      *)
(* return SCALED results; the scale is part of the operator name           *)
(* (e.g. AdvFlux6 returns six times the flux).                             *)
(***************************************************************************)
EXTENDS Lattice, TLC

\* TLC keeps function constructors lazy and TLCEval only makes the OUTER function explicit: DeepV
\* evaluates a sequence of fields (a vector field) completely, once
DeepV(v) == LET w == TLCEval(v) IN TLCEval([k \in 1..Len(w) |-> TLCEval(w[k])])

-----------------------------------------------------------------------------
(* element-wise algebra: every cell                                        *)
EwSum(a, b)           == [c \in Cells |-> a[c] + b[c]]
EwSaxpby(p, a, q, b)  == [c \in Cells |-> p * a[c] + q * b[c]]
EwCopy(a)             == [c \in Cells |-> a[c]]
SetFixed(v)           == Const(v)
AddFixed(a, v)        == [c \in Cells |-> a[c] + v]
VEwSum(a, b)          == [k \in 1..Len(a) |-> EwSum(a[k], b[k])]
VEwSaxpby(p, a, q, b) == [k \in 1..Len(a) |-> EwSaxpby(p, a[k], q, b[k])]
VSetFixed(vs)         == [k \in 1..D |-> Const(vs[k])]
VAddFixed(a, vs)      == [k \in 1..D |-> AddFixed(a[k], vs[k])]
\* complex product (re, im) of (ar + i ai)(br + i bi)
CplxRe(ar, ai, br, bi) == [c \in Cells |-> ar[c] * br[c] - ai[c] * bi[c]]
CplxIm(ar, ai, br, bi) == [c \in Cells |-> ar[c] * bi[c] + ai[c] * br[c]]
\* cross product of two 3-vectors, component k (cyclic)
Nxt(k) == (k % 3) + 1
Cross(a, b) == [k \in 1..3 |-> [c \in Cells |->
                   a[Nxt(k)][c] * b[Nxt(Nxt(k))][c] - a[Nxt(Nxt(k))][c] * b[Nxt(k)][c]]]

\* boundary setters: the zone of width w gets the value, the rest is untouched
SetAtBoundaries(w, out, v)   == OnRing(w, out, LAMBDA c : v)
VSetAtBoundaries(w, out, vs) == [k \in 1..D |-> SetAtBoundaries(w, out[k], vs[k])]

-----------------------------------------------------------------------------
(* second-order central differences; region = Interior(1)                  *)
Dc(f, c, k)  == f[Sh(c, k, 1)] - f[Sh(c, k, -1)]             \* 2h * d/dx_k
D2(f, c, k)  == f[Sh(c, k, 1)] + f[Sh(c, k, -1)] - 2 * f[c]  \* h^2 * d2/dx_k^2
RECURSIVE LapUpTo(_, _, _)
LapUpTo(f, c, k) == IF k = 0 THEN 0 ELSE D2(f, c, k) + LapUpTo(f, c, k - 1)
Lap(f, c)    == LapUpTo(f, c, D)                              \* h^2 * Laplacian

\* with ghost-zone reset the ring of width 1 is set to zero, otherwise untouched
WithRing(reset, out, Val(_)) ==
    [c \in Cells |-> IF InInterior(c, 1) THEN Val(c) ELSE IF reset THEN 0 ELSE out[c]]

DiffusionFlux(out, f, p, reset) == WithRing(reset, out, LAMBDA c : p * Lap(f, c))
VDiffusionFlux(out, f, p, reset) == [k \in 1..D |-> DiffusionFlux(out[k], f[k], p, reset)]

\* 2-D: curl of an out-of-plane field psi -> (d psi/dy, -d psi/dx)
OutplaneCurl2(out, psi, p, reset) ==
    << WithRing(reset, out[1], LAMBDA c : p * Dc(psi, c, 2)),
       WithRing(reset, out[2], LAMBDA c : -p * Dc(psi, c, 1)) >>
\* 2-D: curl of an in-plane field (u, v) -> dv/dx - du/dy     (never resets the ring)
InplaneCurl2At(u, c)         == Dc(u[2], c, 1) - Dc(u[1], c, 2)
InplaneCurl2(out, u, p)      == WithRing(FALSE, out, LAMBDA c : p * InplaneCurl2At(u, c))
\* 3-D curl, component k: d F_{k+2} / d x_{k+1} - d F_{k+1} / d x_{k+2}
Curl3At(F, c, k)             == Dc(F[Nxt(Nxt(k))], c, Nxt(k)) - Dc(F[Nxt(k)], c, Nxt(Nxt(k)))
Curl3(out, F, p, reset)      == [k \in 1..3 |-> WithRing(reset, out[k], LAMBDA c : p * Curl3At(F, c, k))]
\* 3-D divergence; q = 1/(2h)
Div3At(F, c)                 == Dc(F[1], c, 1) + Dc(F[2], c, 2) + Dc(F[3], c, 3)
Div3(out, F, q, reset)       == WithRing(reset, out, LAMBDA c : q * Div3At(F, c))

\* vorticity += p * curl(forcing); interior only, ring untouched
UpdateVort2(om, F, p)   == WithRing(FALSE, om, LAMBDA c : om[c] + p * InplaneCurl2At(F, c))
UpdateVort3(om, F, p)   == [k \in 1..3 |-> WithRing(FALSE, om[k], LAMBDA c : om[k][c] + p * Curl3At(F, c, k))]
VDiff(a, b)             == [k \in 1..Len(a) |-> [c \in Cells |-> a[k][c] - b[k][c]]]
UpdateVortPen2(om, pen, vel, p) == UpdateVort2(om, VDiff(pen, vel), p)
UpdateVortPen3(om, pen, vel, p) == UpdateVort3(om, VDiff(pen, vel), p)

\* vortex stretching flux (omega . grad) u, prefactor p = dt/(2h); ring always reset
StretchAt(om, u, c, k)  == om[1][c] * Dc(u[k], c, 1) + om[2][c] * Dc(u[k], c, 2) + om[3][c] * Dc(u[k], c, 3)
StretchFlux(out, om, u, p) == [k \in 1..3 |-> WithRing(TRUE, out[k], LAMBDA c : p * StretchAt(om, u, c, k))]

-----------------------------------------------------------------------------
(* conservative ENO3 advection.  Face fluxes are returned times 6.         *)
(* g = f * u_k is the nodal flux; the face between c and c + e_k upwinds   *)
(* on the sign of u[c] + u[c + e_k].                                       *)
G(f, u, c)          == f[c] * u[c]
Front6(f, u, c, k)  == IF u[c] + u[Sh(c, k, 1)] > 0
                       THEN 2 * G(f, u, Sh(c, k, 1)) + 5 * G(f, u, c) - G(f, u, Sh(c, k, -1))
                       ELSE 2 * G(f, u, c) + 5 * G(f, u, Sh(c, k, 1)) - G(f, u, Sh(c, k, 2))
\* the face between c - e_k and c, seen from c: upwinds on u[c] + u[c - e_k]
Back6(f, u, c, k)   == IF u[c] + u[Sh(c, k, -1)] > 0
                       THEN 2 * G(f, u, c) + 5 * G(f, u, Sh(c, k, -1)) - G(f, u, Sh(c, k, -2))
                       ELSE 2 * G(f, u, Sh(c, k, -1)) + 5 * G(f, u, c) - G(f, u, Sh(c, k, 1))
RECURSIVE FluxDiv6UpTo(_, _, _, _)
FluxDiv6UpTo(f, vel, c, k) == IF k = 0 THEN 0
    ELSE (Front6(f, vel[k], c, k) - Back6(f, vel[k], c, k)) + FluxDiv6UpTo(f, vel, c, k - 1)
FluxDiv6(f, vel, c) == FluxDiv6UpTo(f, vel, c, D)             \* 6h * div(f u)
\* flux kernel ACCUMULATES p * div on Interior(2); result times 6
AdvFlux6(out, f, vel, p) ==
    [c \in Cells |-> IF InInterior(c, 2) THEN 6 * out[c] + p * FluxDiv6(f, vel, c) ELSE 6 * out[c]]
\* Euler-forward advection step, p = dt/h; result times 6
AdvStep6(f, vel, p) ==
    [c \in Cells |-> IF InInterior(c, 2) THEN 6 * f[c] - p * FluxDiv6(f, vel, c) ELSE 6 * f[c]]
AdvStepBuf6(f, vel, p) ==
    [c \in Cells |-> IF InInterior(c, 2) THEN - p * FluxDiv6(f, vel, c) ELSE 0]

\* Euler-forward diffusion step, p = nu dt / h^2: interior only, ring unchanged
DiffStep(f, p)    == [c \in Cells |-> IF InInterior(c, 1) THEN f[c] + p * Lap(f, c) ELSE f[c]]
DiffStepBuf(f, p) == DiffusionFlux(Zero, f, p, TRUE)

-----------------------------------------------------------------------------
(* one-dimensional filter Laplacians and the two filters (3-D).            *)
(* F_k = -(h^2/4) d2/dx_k^2 ; values returned times 4 per application.     *)
Filt1x4(out, f, k) == WithRing(FALSE, out, LAMBDA c : -D2(f, c, k))    \* 4 * F_k f, interior
Pow4(n) == 4 ^ n

\* The filters are defined operationally on (field, flux buffer, field buffer): this is what makes
\* "independent of what the work buffers held before" a checkable statement.  bw = width of the
\* zone of the flux buffer that is cleared first (>= 1).  Results are scaled by 4^(3n).
MultAxes(flux, buf) == LET fx == TLCEval(Filt1x4(flux, buf, 1))
                           fy == TLCEval(Filt1x4(fx, fx, 2))
                       IN  Filt1x4(fy, fy, 3)
RECURSIVE MultIter(_, _, _)
\* TLCEval forces eager evaluation (TLC does not cache lazy values inside RECURSIVE operators)
MultIter(flux, buf, n) == IF n = 0 THEN flux ELSE LET g == TLCEval(MultAxes(flux, buf)) IN MultIter(g, g, n - 1)
\* multiplicative filter: f - (F_z F_y F_x)^n f
FilterMult(f, flux, n, bw) ==
    LET fl == MultIter(SetAtBoundaries(bw, flux, 0), f, n)
    IN  [f |-> [c \in Cells |-> Pow4(3 * n) * f[c] - fl[c]], flux |-> fl, buf |-> fl]

RECURSIVE AxisPow(_, _, _, _)
AxisPow(flux, buf, k, n) == IF n = 0 THEN flux ELSE LET g == TLCEval(Filt1x4(flux, buf, k)) IN AxisPow(g, g, k, n - 1)
ConvAxis(f, flux, k, n) == LET fl == AxisPow(flux, f, k, n)
                           IN  [f |-> [c \in Cells |-> Pow4(n) * f[c] - fl[c]], flux |-> fl]
\* convolution filter: (1 - F_z^n)(1 - F_y^n)(1 - F_x^n) f, one axis after the other
FilterConv(f, flux, n, bw) ==
    LET a == ConvAxis(f, SetAtBoundaries(bw, flux, 0), 1, n)
        b == ConvAxis(a.f, a.flux, 2, n)
        c == ConvAxis(b.f, b.flux, 3, n)
    IN  [f |-> c.f, flux |-> c.flux, buf |-> c.flux]
Filter(type, f, flux, n, bw) == IF type = "multiplicative" THEN FilterMult(f, flux, n, bw)
                                                          ELSE FilterConv(f, flux, n, bw)
=============================================================================
