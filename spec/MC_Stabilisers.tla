--------------------------- MODULE MC_Stabilisers ---------------------------
(***************************************************************************)
(* C19: stabilising operators never amplify and leave admissible states    *)
(* fixed.                                                                  *)
(*  - Brinkmann penalisation (Eulerian / fixed-value / Lagrangian): exact  *)
(*    rationals; convex combination of field and target.                   *)
(*  - boundary-zone damping: operational (broadcast low, broadcast high,   *)
(*    ramp low, ramp high; axis x, then y, then z) on SYMBOLIC values      *)
(*    [src |-> cell, fac |-> ramp indices]: value = f[src] * prod R[j],    *)
(*    R[j] = sin(pi/2 * j / w) in [0, 1), R[0] = 0.                        *)
(*  - Laplacian filters: exact eigen-relations on Fourier modes with       *)
(*    rational cosine (theta in {0, pi/3, pi/2, 2pi/3, pi} per axis), for  *)
(*    arbitrary prior contents of the flux buffer.                         *)
(***************************************************************************)
EXTENDS Stencils, Arith, TLC, Json

CONSTANTS Kinds, Widths, Orders, FilterMargin, ChiDen, Lambdas, FVals

VARIABLE cs
Rec(kind, a, b, c, d) == [kind |-> kind, a |-> a, b |-> b, c |-> c, d |-> d]

Thetas == 0..4          \* theta = 0, pi/3, pi/2, 2pi/3, pi  <->  4 sin^2(theta/2) = 0, 1, 2, 3, 4
Modes  == IF D = 3 THEN {<<a, b, c>> : a \in Thetas, b \in Thetas, c \in Thetas} ELSE {}

Init == \/ "brinkmann" \in Kinds /\ \E f \in FVals, t \in FVals, chi \in 0..ChiDen, l \in Lambdas :
                                        cs = Rec("brinkmann", f, t, chi, l)
        \/ "damp" \in Kinds /\ \E w \in Widths : cs = Rec("damp", w, 0, 0, 0)
        \/ "mode" \in Kinds /\ \E m \in Modes, n \in Orders, ty \in {"multiplicative", "convolution"} :
                                        cs = Rec("mode", m, n, ty, 0)
Next == UNCHANGED cs
Spec == Init /\ [][Next]_cs

-----------------------------------------------------------------------------
(* Brinkmann: (f + lambda chi t) / (1 + lambda chi), chi = c / ChiDen        *)
Brink(f, t, chi, l) == Q(ChiDen * f + l * chi * t, ChiDen + l * chi)
RAbs(r) == <<AbsI(r[1]), r[2]>>
BrinkmannLaws ==
    cs.kind = "brinkmann" =>
       LET r == Brink(cs.a, cs.b, cs.c, cs.d)
           lo == RInt(Min2(cs.a, cs.b))  hi == RInt(Max2(cs.a, cs.b))
       IN  /\ RLe(lo, r) /\ RLe(r, hi)                                   \* convex combination
           /\ (cs.c = 0 \/ cs.d = 0) => REq(r, RInt(cs.a))              \* equals the field where chi = 0
           /\ \A l2 \in Lambdas : l2 >= cs.d =>                          \* monotone approach to the target
                 RLe(RAbs(RSub(Brink(cs.a, cs.b, cs.c, l2), RInt(cs.b))), RAbs(RSub(r, RInt(cs.b))))
           /\ cs.c > 0 =>                                                \* |r - t| = |f - t| / (1 + lambda chi) -> 0
                 REq(RAbs(RSub(r, RInt(cs.b))), Q(ChiDen * AbsI(cs.a - cs.b), ChiDen + cs.d * cs.c))

-----------------------------------------------------------------------------
(* boundary-zone damping on symbolic values                                 *)
N(k) == Shape[Ax(k)]
Ident == [c \in Cells |-> [src |-> c, fac |-> <<>>]]
SetCoord(c, k, v) == [c EXCEPT ![Ax(k)] = v]
BroadLo(g, k, w) == [c \in Cells |-> IF c[Ax(k)] <= w THEN g[SetCoord(c, k, w)] ELSE g[c]]
BroadHi(g, k, w) == [c \in Cells |-> IF c[Ax(k)] > N(k) - w THEN g[SetCoord(c, k, N(k) - w + 1)] ELSE g[c]]
Mult(v, j)       == [src |-> v.src, fac |-> Append(v.fac, j)]
RampLo(g, k, w)  == [c \in Cells |-> IF c[Ax(k)] <= w THEN Mult(g[c], c[Ax(k)] - 1) ELSE g[c]]
RampHi(g, k, w)  == [c \in Cells |-> IF c[Ax(k)] > N(k) - w THEN Mult(g[c], N(k) - c[Ax(k)]) ELSE g[c]]
DampAxis(g, k, w) == RampHi(RampLo(BroadHi(BroadLo(g, k, w), k, w), k, w), k, w)
RECURSIVE DampUpTo(_, _, _)
DampUpTo(g, k, w) == IF k > D THEN g ELSE DampUpTo(TLCEval(DampAxis(g, k, w)), k + 1, w)
Damp(w) == IF w = 0 THEN Ident ELSE DampUpTo(Ident, 1, w)

Clamp(c, w) == [a \in 1..D |-> IF c[a] < w THEN w ELSE IF c[a] > Shape[a] - w + 1 THEN Shape[a] - w + 1 ELSE c[a]]
HasZero(s)  == \E i \in 1..Len(s) : s[i] = 0
DampLaws ==
    cs.kind = "damp" =>
       LET w == cs.a  g == Damp(w) IN
       \A c \in Cells :
          /\ InInterior(c, w) => g[c] = [src |-> c, fac |-> <<>>]                 \* untouched outside the zone
          /\ (w > 0 /\ ~InInterior(c, 1)) => HasZero(g[c].fac)                     \* outermost ring -> 0
          /\ (w > 0 /\ ~InInterior(c, w)) =>                                       \* bounded by the inner edge
                /\ Depth(g[c].src) = w - 1
                /\ g[c].src = Clamp(c, w)
                /\ \A i \in 1..Len(g[c].fac) : g[c].fac[i] \in 0..(w - 1)
                /\ Len(g[c].fac) = Cardinality({a \in 1..D : c[a] <= w \/ c[a] > Shape[a] - w})

-----------------------------------------------------------------------------
(* filters on Fourier modes.  Per axis the mode is 2 cos(theta i) (integer):   *)
Cos2(t, i) == CASE t = 0 -> 2
                [] t = 1 -> <<1, -1, -2, -1, 1, 2>>[(i % 6) + 1]      \* 2 cos(pi i / 3), i = 1, 2, ...
                [] t = 2 -> <<0, -2, 0, 2>>[(i % 4) + 1]              \* 2 cos(pi i / 2)
                [] t = 3 -> <<-1, -1, 2>>[(i % 3) + 1]                \* 2 cos(2 pi i / 3)
                [] t = 4 -> IF i % 2 = 0 THEN 2 ELSE -2               \* 2 cos(pi i)
ModeField(m) == [c \in Cells |-> Cos2(m[1], c[Ax(1)]) * Cos2(m[2], c[Ax(2)]) * Cos2(m[3], c[Ax(3)])]
Stale(s)     == [c \in Cells |-> ((5 * c[1] + 3 * c[2] + 11 * c[3] + s) % 9) - 4]
RECURSIVE IPow(_, _)
IPow(b, n) == IF n = 0 THEN 1 ELSE b * IPow(b, n - 1)
\* 4^(3n) * per-mode factor:  a_k = 4 sin^2(theta_k / 2) = theta index
FactorScaled(m, n, ty) ==
    IF ty = "multiplicative" THEN IPow(4, 3 * n) - IPow(m[1] * m[2] * m[3], n)
    ELSE (IPow(4, n) - IPow(m[1], n)) * (IPow(4, n) - IPow(m[2], n)) * (IPow(4, n) - IPow(m[3], n))
ModeLaws ==
    cs.kind = "mode" =>
       LET m == cs.a  n == cs.b  ty == cs.c
           f == ModeField(m)
           r1 == Filter(ty, f, Stale(1), n, 1).f
           r2 == Filter(ty, f, Stale(2), n, 1).f
           fs == FactorScaled(m, n, ty)
       IN  /\ 0 <= fs /\ fs <= IPow(4, 3 * n)                                      \* factor in [0, 1]
           /\ r1 = r2                                                               \* independent of stale buffers
           /\ \A c \in Cells : InInterior(c, FilterMargin + n) => r1[c] = fs * f[c]     \* eigen-relation
           /\ (m = <<0, 0, 0>>) => fs = IPow(4, 3 * n)                              \* constants fixed
           /\ (m = <<4, 4, 4>>) => fs = 0                                           \* checkerboard annihilated

EmitState ==
    CASE cs.kind = "brinkmann" -> PrintT(<<"EMIT", ToJson([cs |-> cs, r |-> Brink(cs.a, cs.b, cs.c, cs.d)])>>)
      [] cs.kind = "damp" -> PrintT(<<"EMIT", ToJson([cs |-> cs, shape |-> Shape,
                                 src |-> Arr([c \in Cells |-> Damp(cs.a)[c].src]),
                                 fac |-> Arr([c \in Cells |-> Damp(cs.a)[c].fac])])>>)
      [] cs.kind = "mode" -> PrintT(<<"EMIT", ToJson([cs |-> cs, shape |-> Shape, f |-> Arr(ModeField(cs.a)),
                                 factor |-> FactorScaled(cs.a, cs.b, cs.c), scale |-> IPow(4, 3 * cs.b)])>>)
=============================================================================
