------------------------------ MODULE Validation ------------------------------
(***************************************************************************)
(* Extended coverage (not tied to one listed property): the argument       *)
(* contracts of the public constructors / generators as a decision table.  *)
(* A case is <<api, argument class>>; Outcome is what the documentation    *)
(* and the validators promise: "ok" or the exception class.  The replay    *)
(* (harness/x01.py) calls the real API with a representative of each       *)
(* argument class.  TLC checks the table is total and that every API has   *)
(* both accepted and rejected classes (no vacuous contract).               *)
(***************************************************************************)
EXTENDS Integers, Sequences, FiniteSets, TLC, Json

Table == {
  <<"set_fixed_val_at_boundaries", "width_positive_int", "ok">>,
  <<"set_fixed_val_at_boundaries", "width_zero", "ValueError">>,
  <<"set_fixed_val_at_boundaries", "width_negative", "ValueError">>,
  <<"set_fixed_val_at_boundaries", "width_float", "ValueError">>,
  <<"set_fixed_val_at_boundaries", "field_type_invalid", "ValueError">>,
  <<"penalise_field_boundary", "width_zero", "ok">>,
  <<"penalise_field_boundary", "width_positive_int", "ok">>,
  <<"penalise_field_boundary", "width_negative", "ValueError">>,
  <<"penalise_field_boundary", "width_float", "ValueError">>,
  <<"laplacian_filter", "order_positive", "ok">>,
  <<"laplacian_filter", "order_negative", "ValueError">>,
  <<"laplacian_filter", "order_float", "ValueError">>,
  <<"laplacian_filter", "filter_type_invalid", "ValueError">>,
  <<"laplacian_filter", "field_type_invalid", "ValueError">>,
  <<"laplacian_filter", "boundary_width_zero", "ValueError">>,
  <<"elementwise", "field_type_scalar", "ok">>,
  <<"elementwise", "field_type_vector", "ok">>,
  <<"elementwise", "field_type_invalid", "ValueError">>,
  <<"precision", "single", "ok">>, <<"precision", "double", "ok">>, <<"precision", "other", "ValueError">>,
  <<"pyst_dtype", "float32", "ok">>, <<"pyst_dtype", "float64", "ok">>, <<"pyst_dtype", "int", "ValueError">>,
  <<"passive_simulator", "scalar_2d", "ok">>, <<"passive_simulator", "vector_3d", "ok">>,
  <<"passive_simulator", "vector_2d", "ValueError">>, <<"passive_simulator", "field_type_invalid", "ValueError">>,
  <<"passive_simulator", "grid_dim_4", "ValueError">>,
  <<"ns3d_simulator", "solver_greens", "ok">>, <<"ns3d_simulator", "solver_fast_diag", "ok">>, <<"ns3d_simulator", "solver_invalid", "ValueError">>,
  <<"create_flow_simulator", "navier_stokes", "ok">>, <<"create_flow_simulator", "navier_stokes_with_forcing", "ok">>,
  <<"create_flow_simulator", "flow_type_invalid", "ValueError">>,
  <<"virtual_boundary_forcing", "grid_dim_2", "ok">>, <<"virtual_boundary_forcing", "grid_dim_3", "ok">>,
  <<"virtual_boundary_forcing", "grid_dim_1", "ValueError">>,
  <<"communicator", "kernel_cosine", "ok">>, <<"communicator", "kernel_peskin", "ok">>, <<"communicator", "kernel_invalid", "ValueError">>,
  <<"communicator", "kernel_width_3", "ValueError">>, <<"communicator", "n_components_invalid", "ValueError">>,
  <<"forcing_grid", "cylinder2d_dim2", "ok">>, <<"forcing_grid", "cylinder2d_dim3", "ValueError">>,
  <<"forcing_grid", "sphere_dim3", "ok">>, <<"forcing_grid", "sphere_dim2", "ValueError">>,
  <<"forcing_grid", "rod_edge_dim2", "ok">>, <<"forcing_grid", "rod_edge_dim3", "ValueError">>,
  <<"forcing_grid", "rod_surface_dim3", "ok">>, <<"forcing_grid", "rod_surface_dim2", "ValueError">>,
  <<"io", "dim_2", "ok">>, <<"io", "dim_4", "ValueError">>,
  <<"io", "grid_args_not_arrays", "TypeError">>, <<"io", "eulerian_field_before_grid", "ValueError">>,
  <<"io", "eulerian_field_wrong_shape", "ValueError">>, <<"io", "lagrangian_grid_1d", "ValueError">>,
  <<"io", "lagrangian_grid_wrong_dim", "ValueError">>, <<"io", "lagrangian_field_wrong_shape", "ValueError">>
}

VARIABLE cs
Init == cs \in Table
Next == UNCHANGED cs
Spec == Init /\ [][Next]_cs
Apis == {t[1] : t \in Table}
\* every (api, class) has exactly one outcome; every API has an accepted and a rejected class
Functional == \A a \in Table, b \in Table : (a[1] = b[1] /\ a[2] = b[2]) => a[3] = b[3]
NonVacuous == \A api \in Apis : (\E t \in Table : t[1] = api /\ t[3] = "ok") /\ (\E t \in Table : t[1] = api /\ t[3] # "ok")
EmitState == PrintT(<<"EMIT", ToJson([api |-> cs[1], cls |-> cs[2], outcome |-> cs[3]])>>)
=============================================================================
