--------------------------------- MODULE IO ----------------------------------
(***************************************************************************)
(* C17: registries, on-disk layout, save, load, rejections.                *)
(*                                                                         *)
(* A scenario fixes the dimension, which Eulerian fields are registered    *)
(* (one scalar "es", one vector "ev"), up to two Lagrangian grids with     *)
(* their marker count and fields (scalar "ls<g>" of shape (N,), vector     *)
(* "lv<g>" of shape (dim, N)), and possibly ONE mismatch between the file  *)
(* and the loading registry.  Array contents are opaque tokens: bit-exact  *)
(* restoration = the same token comes back in the same orientation.        *)
(* Design variants: ClassifyOrder (which shape test classifies a           *)
(* Lagrangian field first) and LoadGuard (what switches the Lagrangian     *)
(* part of load on).                                                       *)
(***************************************************************************)
EXTENDS Integers, Sequences, FiniteSets, TLC, Json

CONSTANTS ClassifyOrder,   \* "vector_first" (intended) | "scalar_first"
          LoadGuard        \* "grids" (intended) | "fields"

VARIABLE cs

Kinds    == {"S", "V"}
GridCfg  == {[n |-> n, fs |-> fs] : n \in 1..4, fs \in SUBSET Kinds}
Mismatch == {"none", "missing_efield", "missing_grid", "missing_lfield", "origin", "dx", "grid_size", "nothing_registered_l"}

Init == \E dim \in {2, 3}, ef \in SUBSET Kinds, ng \in 0..2, g1 \in GridCfg, g2 \in GridCfg, mis \in Mismatch :
           /\ (ng < 2 => g2 = [n |-> 1, fs |-> {}]) /\ (ng < 1 => g1 = [n |-> 1, fs |-> {}])
           /\ (ng >= 1 => g1.n \in {1, 2, dim, dim + 1}) /\ (ng = 2 => g2.n \in {1, dim})
           /\ cs = [dim |-> dim, ef |-> ef, grids |-> IF ng = 0 THEN <<>> ELSE IF ng = 1 THEN <<g1>> ELSE <<g1, g2>>, mis |-> mis]
Next == UNCHANGED cs
Spec == Init /\ [][Next]_cs

NG == Len(cs.grids)
\* ---- classification of a Lagrangian field of actual kind k on a grid with n markers --------------
Classify(k, n) ==
    IF ClassifyOrder = "vector_first" THEN (IF k = "V" THEN "Vector" ELSE "Scalar")
    ELSE \* first test: leading extent equals the marker count
         IF k = "S" THEN "Scalar" ELSE IF cs.dim = n THEN "Scalar" ELSE "Vector"

\* ---- the file written by save: a set of datasets ---------------------------------------------------
\* Eulerian datasets have shape (1, *grid): written <<1, 0>> (0 stands for the grid extents)
DS(path, shape, tr, tok) == [path |-> path, shape |-> shape, tr |-> tr, tok |-> tok]
EFile == (IF "S" \in cs.ef THEN {DS(<<"Eulerian", "Scalar", "es">>, <<1, 0>>, FALSE, <<"es">>)} ELSE {})
         \cup (IF "V" \in cs.ef THEN {DS(<<"Eulerian", "Vector", "ev", ToString(k)>>, <<1, 0>>, FALSE, <<"ev", ToString(k)>>) : k \in 0..(cs.dim - 1)} ELSE {})
GName(g) == IF g = 1 THEN "ga" ELSE "gb"
LFieldDS(g, k) ==
    LET n == cs.grids[g].n  cls == Classify(k, n)
        actual == IF k = "S" THEN <<n>> ELSE <<cs.dim, n>>
    IN  IF cls = "Scalar" THEN DS(<<"Lagrangian", GName(g), "Scalar", k>>, actual, FALSE, <<"l", ToString(g), k>>)
        ELSE DS(<<"Lagrangian", GName(g), "Vector", k>>, <<n, cs.dim>>, TRUE, <<"l", ToString(g), k>>)
LFile == UNION {{DS(<<"Lagrangian", GName(g), "Grid">>, <<cs.grids[g].n, cs.dim>>, TRUE, <<"grid", ToString(g)>>)}
                \cup {LFieldDS(g, k) : k \in cs.grids[g].fs} : g \in 1..NG}
Saved == [data |-> EFile \cup LFile, time |-> <<"time">>,
          params |-> IF cs.ef # {} THEN [origin |-> "o", dx |-> "d", grid_size |-> "g"] ELSE [origin |-> "-", dx |-> "-", grid_size |-> "-"]]
\* the Eulerian grid is "defined" exactly when Eulerian fields are registered in these scenarios

\* ---- the file the loader sees and the registry it loads into (one mismatch at most) ---------------
Paths(f) == {d.path : d \in f.data}
FileSeen ==
    CASE cs.mis = "missing_efield" -> [Saved EXCEPT !.data = {d \in @ : d.path[1] # "Eulerian" \/ d.path[2] # "Scalar"}]
      [] cs.mis = "missing_grid"   -> [Saved EXCEPT !.data = {d \in @ : ~(d.path[1] = "Lagrangian" /\ d.path[2] = "ga")}]
      [] cs.mis = "missing_lfield" -> [Saved EXCEPT !.data = {d \in @ : ~(d.path[1] = "Lagrangian" /\ d.path[2] = "ga" /\ Len(d.path) = 4)}]
      [] cs.mis = "origin"         -> [Saved EXCEPT !.params.origin = "o2"]
      [] cs.mis = "dx"             -> [Saved EXCEPT !.params.dx = "d2"]
      [] cs.mis = "grid_size"      -> [Saved EXCEPT !.params.grid_size = "g2"]
      [] OTHER -> Saved
\* does the scenario actually contain the thing the mismatch removes / changes?
MismatchEffective ==
    CASE cs.mis = "missing_efield" -> "S" \in cs.ef
      [] cs.mis = "missing_grid"   -> NG >= 1
      [] cs.mis = "missing_lfield" -> NG >= 1 /\ cs.grids[1].fs # {}
      [] cs.mis \in {"origin", "dx", "grid_size"} -> cs.ef # {}
      [] OTHER -> FALSE

\* ---- load -------------------------------------------------------------------------------------------
HasLFields == \E g \in 1..NG : cs.grids[g].fs # {}
LagrangianPartRuns == IF LoadGuard = "grids" THEN NG >= 1 ELSE HasLFields
ELoadError == /\ cs.ef # {}
              /\ \/ \E d \in EFile : d.path \notin Paths(FileSeen)
                 \/ FileSeen.params # Saved.params
LLoadError == /\ LagrangianPartRuns
              /\ \E d \in LFile : d.path \notin Paths(FileSeen)
LoadError == ELoadError \/ LLoadError
\* what load restores (when it does not fail): tokens per registered array
Restored == (IF cs.ef # {} THEN {d.tok : d \in EFile} ELSE {})
            \cup (IF LagrangianPartRuns THEN {d.tok : d \in LFile} ELSE {})
            \cup {<<"time">>}
Registered == {d.tok : d \in EFile \cup LFile} \cup {<<"time">>}

\* ---- properties ------------------------------------------------------------------------------------
RoundTrip == cs.mis = "none" => (~LoadError /\ Restored = Registered)
Rejects   == MismatchEffective => LoadError
\* Lagrangian grids and vector fields are stored marker-major (N, dim), whatever N is
Layout    == \A g \in 1..NG : "V" \in cs.grids[g].fs =>
                 LET d == LFieldDS(g, "V") IN d.path[3] = "Vector" /\ d.shape = <<cs.grids[g].n, cs.dim>> /\ d.tr
ScalarLayout == \A g \in 1..NG : "S" \in cs.grids[g].fs =>
                 LET d == LFieldDS(g, "S") IN d.path[3] = "Scalar" /\ d.shape = <<cs.grids[g].n>>

EmitState == PrintT(<<"EMIT", ToJson([cs |-> [dim |-> cs.dim, ef |-> cs.ef, grids |-> [g \in 1..NG |-> cs.grids[g]], mis |-> cs.mis],
                                      paths |-> {d.path : d \in Saved.data}, shapes |-> {[path |-> d.path, shape |-> d.shape] : d \in Saved.data},
                                      load_error |-> LoadError, effective |-> MismatchEffective])>>)
=============================================================================
