------------------------------ MODULE FlowStep -------------------------------
(***************************************************************************)
(* C01 / C04 / C14 / C18: one time step of the three flow simulators as a   *)
(* step machine -- ONE ACTION PER KERNEL CALL, scratch buffers are          *)
(* variables with ARBITRARY initial contents -- and, independently,         *)
(* RefStep: the documented operator sequence as one functional definition. *)
(*                                                                         *)
(* Vorticity pipeline (exact, lattice integers; results carry a scale):    *)
(*   2-D NS : [forcing curl dt/(2 h rho)] ; ENO3 advection dt/h (x6) ;     *)
(*            diffusion nu dt/h^2                                          *)
(*   3-D NS : [forcing curl] ; rotational update dt/(2h) curl(u x omega) ; *)
(*            diffusion per component ; [filter mult|conv, order n]        *)
(*            (x 4^(3n))                                                   *)
(*   passive: ENO3 advection (x6) ; diffusion  (scalar, or vector in 3-D)  *)
(* Velocity recovery (NS only) is specified SYMBOLICALLY as the list of    *)
(* documented stages  damp(w) ; solve ; curl 1/(2h) [ring reset] ;         *)
(* [+ free stream]  applied to the pipeline's result; the harness          *)
(* evaluates it from the documented closed forms (Green's function,        *)
(* ramp).  Forcing is identically zero on return; time advances by dt.     *)
(***************************************************************************)
EXTENDS Stencils, TLC, Json

CONSTANTS Sim,          \* "ns2" | "ns3" | "pt_scalar" | "pt_vector"
          Forcing, FreeStream,
          FilterType,   \* "off" | "multiplicative" | "convolution"   (ns3 only)
          FilterOrder,
          ZoneWidth,
          PF, PA, PD, PR,   \* integer prefactors: dt/(2 h rho), dt/h, nu dt/h^2, dt/(2h) (3-D rotational update)
          Dt,           \* the step size (integer)
          Vals, UVals,  \* vorticity / velocity-forcing samples
          Margin,       \* 0 = arbitrary fields; m > 0: vorticity and forcing vanish at depth < m (C04, C14)
          NoTies        \* TRUE: no face velocity sum is exactly zero (C14)

VARIABLES om, vel, frc, buf, time, post, scale, pc, comp, init
vars == <<om, vel, frc, buf, time, post, scale, pc, comp, init>>

NC   == IF Sim \in {"ns3", "pt_vector"} THEN 3 ELSE 1      \* components of the primary field
NB   == IF Sim = "ns3" THEN 3 ELSE 1                        \* scalar scratch fields (3-D NS: the buffer vector field)
IsNS == Sim \in {"ns2", "ns3"}
Adv  == Sim \in {"ns2", "pt_scalar", "pt_vector"}

\* random fields; about one in eight is identically zero (e.g. one vanishing vorticity / forcing component)
RandF(V)   == IF 0 \in V /\ RandomElement(1..8) = 1 THEN Zero ELSE [c \in Cells |-> RandomElement(V)]
Compact(f) == IF Margin = 0 THEN f ELSE [c \in Cells |-> IF InInterior(c, Margin) THEN f[c] ELSE 0]
TieFree(u) == \A k \in 1..D : \A c \in Cells : (c[Ax(k)] < Shape[Ax(k)]) => u[k][c] + u[k][Sh(c, k, 1)] # 0

\* tie-freeness is guaranteed by construction: no two admissible velocity samples cancel
ASSUME NoTies => \A a \in UVals, b \in UVals : a + b # 0

Init == /\ pc = "pick" /\ comp = 1 /\ om = <<>> /\ vel = <<>> /\ frc = <<>> /\ buf = <<>> /\ time = 0 /\ post = <<>> /\ scale = 1
        /\ init = [om |-> <<>>, vel |-> <<>>, frc |-> <<>>]

\* the environment chooses an admissible state, including garbage in every scratch buffer
Pick == /\ pc = "pick"
        /\ om'  = [k \in 1..NC |-> Compact(RandF(Vals))]
        /\ vel' = [k \in 1..D |-> RandF(UVals)]
        /\ frc' = [k \in 1..D |-> IF Forcing THEN Compact(RandF(UVals)) ELSE Zero]
        /\ buf' = [k \in 1..NB |-> RandF(-9..9)]
        /\ init' = [om |-> om', vel |-> vel', frc |-> frc']
        /\ time' = 7 /\ post' = <<>> /\ scale' = 1 /\ comp' = 1
        /\ pc' = IF IsNS /\ Forcing THEN "force" ELSE IF Sim = "ns3" THEN "cross" ELSE "adv_reset"

Keep(vs) == UNCHANGED vs
Scalar(v) == v[1]

\* ---- body forcing: omega += dt/(2 h rho) curl(forcing) ------------------------------------------
Force == /\ pc = "force"
         /\ om' = IF D = 2 THEN << UpdateVort2(om[1], frc, PF) >> ELSE UpdateVort3(om, frc, PF)
         /\ pc' = IF Sim = "ns3" THEN "cross" ELSE "adv_reset"
         /\ UNCHANGED <<vel, frc, buf, time, post, scale, comp, init>>

\* ---- 3-D rotational form: buffer := u x omega ; omega += dt/(2h) curl(buffer) --------------------
CrossA  == /\ pc = "cross" /\ buf' = Cross(vel, om) /\ pc' = "rot"
           /\ UNCHANGED <<om, vel, frc, time, post, scale, comp, init>>
Rot     == /\ pc = "rot" /\ om' = UpdateVort3(om, buf, PR) /\ pc' = "diff_flux"
           /\ UNCHANGED <<vel, frc, buf, time, post, scale, comp, init>>

\* ---- ENO3 advection of component `comp` (x6): reset flux buffer ; accumulate fluxes ; add ----------
\* (vector transport re-uses the one scalar buffer for each component in turn)
AdvReset == /\ pc = "adv_reset"
            /\ buf' = [buf EXCEPT ![1] = Zero]
            /\ pc' = "adv_flux" /\ UNCHANGED <<om, vel, frc, time, post, scale, comp, init>>
\* buffer holds 6 x (-dt/h) div(f u) on Interior(2), untouched (= 0) elsewhere
AdvFluxA == /\ pc = "adv_flux"
            /\ buf' = [buf EXCEPT ![1] = AdvFlux6(buf[1], om[comp], vel, -PA)]
            /\ pc' = "adv_sum" /\ UNCHANGED <<om, vel, frc, time, post, scale, comp, init>>
\* components already advanced carry the scale 6, the others not yet
AdvSum   == /\ pc = "adv_sum"
            /\ om' = [om EXCEPT ![comp] = [c \in Cells |-> 6 * om[comp][c] + buf[1][c]]]
            /\ pc' = IF comp < NC THEN "adv_reset" ELSE "diff_flux"
            /\ comp' = IF comp < NC THEN comp + 1 ELSE 1
            /\ scale' = IF comp = NC THEN 6 ELSE scale
            /\ UNCHANGED <<vel, frc, buf, time, post, init>>

\* ---- diffusion of component `comp`: flux into the scalar buffer (ring reset) ; add ------------------
DiffFlux == /\ pc = "diff_flux"
            /\ buf' = [buf EXCEPT ![1] = DiffusionFlux(buf[1], om[comp], PD, TRUE)]
            /\ pc' = "diff_sum" /\ UNCHANGED <<om, vel, frc, time, post, scale, comp, init>>
AfterDiff == IF Sim = "ns3" /\ FilterType # "off" THEN "filter" ELSE IF IsNS THEN "recover" ELSE "clock"
DiffSum  == /\ pc = "diff_sum"
            /\ om' = [om EXCEPT ![comp] = EwSum(om[comp], buf[1])]
            /\ pc' = IF comp < NC THEN "diff_flux" ELSE AfterDiff
            /\ comp' = IF comp < NC THEN comp + 1 ELSE 1
            /\ UNCHANGED <<vel, frc, buf, time, post, scale, init>>

\* ---- 3-D filter, component by component, through buffer[1] (flux) and buffer[2] (field copy) ------
FilterA == /\ pc = "filter"
           /\ LET r == Filter(FilterType, om[comp], buf[1], FilterOrder, 1)
              IN  /\ om' = [om EXCEPT ![comp] = r.f]
                  /\ buf' = [buf EXCEPT ![1] = r.flux, ![2] = r.buf]
           /\ pc' = IF comp < 3 THEN "filter" ELSE "rescale"
           /\ comp' = IF comp < 3 THEN comp + 1 ELSE 1
           /\ UNCHANGED <<vel, frc, time, post, scale, init>>
\* bookkeeping only: every component now carries 4^(3n)
Rescale == /\ pc = "rescale" /\ scale' = scale * Pow4(3 * FilterOrder) /\ pc' = "recover"
           /\ UNCHANGED <<om, vel, frc, buf, time, post, comp, init>>

\* ---- velocity recovery, symbolic: the documented stages in order ----------------------------------
Recover == /\ pc = "recover"
           /\ post' = << <<"damp", ZoneWidth>>, <<"solve">>, <<"curl_half_inv_h_ring_reset">> >>
                      \o (IF FreeStream THEN << <<"add_free_stream">> >> ELSE <<>>)
           /\ pc' = IF Forcing THEN "zero_forcing" ELSE "clock"
           /\ UNCHANGED <<om, vel, frc, buf, time, scale, comp, init>>
ZeroForcing == /\ pc = "zero_forcing" /\ frc' = VZero /\ pc' = "clock"
               /\ UNCHANGED <<om, vel, buf, time, post, scale, comp, init>>
Clock == /\ pc = "clock" /\ time' = time + Dt /\ pc' = "done"
         /\ UNCHANGED <<om, vel, frc, buf, post, scale, comp, init>>
Again == /\ pc = "done" /\ pc' = "pick" /\ UNCHANGED <<om, vel, frc, buf, time, post, scale, comp, init>>

Next == \/ Pick \/ Force \/ CrossA \/ Rot \/ Rescale \/ Recover \/ ZeroForcing \/ Clock \/ Again
        \/ AdvReset \/ AdvFluxA \/ AdvSum \/ DiffFlux \/ DiffSum \/ FilterA
Spec == Init /\ [][Next]_vars

-----------------------------------------------------------------------------
(* RefStep: the documented discretisation as ONE expression of the initial state *)
RefForce(o, f)  == IF ~(IsNS /\ Forcing) THEN o ELSE IF D = 2 THEN << UpdateVort2(o[1], f, PF) >> ELSE UpdateVort3(o, f, PF)
RefTransport(o, u) ==
    IF Sim = "ns3" THEN UpdateVort3(o, Cross(u, o), PR)            \* omega + dt/(2h) curl(u x omega)
    ELSE [k \in 1..NC |-> AdvStep6(o[k], u, PA)]                   \* 6 (f - dt/h div(f u))
RefDiffuse(o)   == [k \in 1..NC |-> DiffStep(o[k], PD)]
RefFilter(o)    == IF Sim = "ns3" /\ FilterType # "off"
                   THEN [k \in 1..3 |-> Filter(FilterType, o[k], Zero, FilterOrder, 1).f] ELSE o
RefOmOf(o, u, f) == RefFilter(RefDiffuse(RefTransport(RefForce(o, f), u)))
RefOm    == RefOmOf(init.om, init.vel, init.frc)
RefScale == (IF Adv THEN 6 ELSE 1) * (IF Sim = "ns3" /\ FilterType # "off" THEN Pow4(3 * FilterOrder) ELSE 1)
RefPost  == IF IsNS THEN << <<"damp", ZoneWidth>>, <<"solve">>, <<"curl_half_inv_h_ring_reset">> >>
                         \o (IF FreeStream THEN << <<"add_free_stream">> >> ELSE <<>>)
            ELSE <<>>

\* C01: the step machine realises the documented sequence, whatever the scratch buffers held
Realises == pc = "done" =>
    /\ om = RefOm /\ scale = RefScale /\ post = RefPost
    /\ time = 7 + Dt
    /\ (IsNS => frc = VZero)
    /\ (~IsNS => vel = init.vel)
\* C04 (step level): compactly supported vorticity / forcing => grid sum of every component unchanged
Conserved == (pc = "done" /\ Margin > 0) => \A k \in 1..NC : Total(om[k]) = scale * Total(init.om[k])
\* C18 (design level): nothing that a later step reads survives in scratch -- RefOm mentions no buffer; the
\* machine equals RefOm for arbitrary initial buffer contents (Realises); stated separately for the record
NoHiddenState == pc = "done" => om = RefOm

-----------------------------------------------------------------------------
(* C14: the grid symmetry group (axis permutations and mirrors) on cubic / square grids.             *)
(* g = [perm |-> <<p1, ..>>, sgn |-> <<s1, ..>>]: physical axis k goes to axis perm[k], mirrored if     *)
(* sgn[k] = -1.  Scalars are carried along, vectors have their components permuted and signed,       *)
(* vorticity is a pseudo-scalar (2-D) / pseudo-vector (3-D): extra factor det(g).                      *)
CONSTANT Group
NSide == Shape[1]
Src(g, d) == [a \in 1..D |-> LET k == D + 1 - a IN
                 IF g.sgn[k] = 1 THEN d[Ax(g.perm[k])] ELSE NSide + 1 - d[Ax(g.perm[k])]]
TScalar(g, f) == [d \in Cells |-> f[Src(g, d)]]
InvP(g, j) == CHOOSE k \in 1..D : g.perm[k] = j
TVector(g, v) == [j \in 1..D |-> LET k == InvP(g, j) IN [d \in Cells |-> g.sgn[k] * v[k][Src(g, d)]]]
Inversions(p) == Cardinality({<<a, b>> \in (1..D) \X (1..D) : a < b /\ p[a] > p[b]})
Det(g) == (IF Inversions(g.perm) % 2 = 0 THEN 1 ELSE -1) * (IF D = 2 THEN g.sgn[1] * g.sgn[2] ELSE g.sgn[1] * g.sgn[2] * g.sgn[3])
TOm(g, o) == CASE Sim = "ns2" -> << [d \in Cells |-> Det(g) * o[1][Src(g, d)]] >>
               [] Sim = "ns3" -> LET t == TVector(g, o) IN [j \in 1..3 |-> [d \in Cells |-> Det(g) * t[j][d]]]
               [] Sim = "pt_scalar" -> << TScalar(g, o[1]) >>
               [] OTHER -> TVector(g, o)
Equivariant(g) == LET o == init.om  u == init.vel  f == init.frc
                      to == DeepV(TOm(g, o))  tu == DeepV(TVector(g, u))  tf == DeepV(TVector(g, f))
                      lhs == DeepV(RefOmOf(to, tu, tf))
                      r   == DeepV(RefOm)
                      rhs == DeepV(TOm(g, r))
                  IN  lhs = rhs
EquivariantAll == pc = "force_or_first" \/ (pc = "done" => \A g \in Group : Equivariant(g))

EmitDone == (pc = "clock" /\ pc' = "done") =>
    PrintT(<<"EMIT", ToJson([sim |-> Sim, shape |-> Shape, om0 |-> [k \in 1..NC |-> Arr(init.om[k])],
                             vel0 |-> VArr(init.vel), frc0 |-> VArr(init.frc), buf0 |-> "garbage",
                             om |-> [k \in 1..NC |-> Arr(om'[k])], scale |-> scale', post |-> post', time0 |-> 7, time |-> time'])>>)
=============================================================================
