------------------------------ MODULE Brinkmann ------------------------------
(***************************************************************************)
(* Extended coverage (X03): the Lagrangian Brinkmann-penalisation feedback *)
(* (sopht.numeric.immersed_boundary_ops.experimental.BrinkmannBoundary-     *)
(* Forcing), the second coupling law of the library next to the virtual    *)
(* boundary of Coupling.tla.  One representative marker component per body *)
(* (the law is identical and independent for every marker and component).  *)
(*                                                                         *)
(* Interact(b, L) with L = brinkmann_coeff * dt:                           *)
(*      uI      := flow velocity interpolated at the marker                *)
(*      pen[b]  := (uI + L v[b]) / (1 + L)          penalised velocity     *)
(*      flux[b] := pen[b] - uI = L (v[b] - uI) / (1 + L)                    *)
(*      shared Eulerian flux field: += spread(flux[b])  (or overwritten in *)
(*      reset mode);   force[b] := dx^D flux[b] / dt                       *)
(* Rationals are carried as <<numerator, denominator>> with denominator    *)
(* 1 + L, so every law is an integer identity.                             *)
(* The law is MEMORYLESS: an interaction depends on the current flow and   *)
(* body velocity only.  Stateful = TRUE is the design variant in which the *)
(* penalised velocity of the previous call is taken as the flow velocity   *)
(* (hidden state); Overshoot = TRUE the variant flux = L (v - u).          *)
(***************************************************************************)
EXTENDS Integers, Sequences, FiniteSets, TLC, Json

CONSTANTS Bodies, Vals, Ls, ResetMode, MaxSteps, Stateful, Overshoot, KeepTrail

VARIABLES u, v, pen, flux, eul, uAt, vAt, lAt, evald, n, last, trail
vars == <<u, v, pen, flux, eul, uAt, vAt, lAt, evald, n, last, trail>>

Zero == <<0, 1>>
Init == /\ u \in Vals /\ v \in [Bodies -> Vals]
        /\ pen = [b \in Bodies |-> Zero] /\ flux = [b \in Bodies |-> Zero]
        /\ eul = <<>> /\ uAt = [b \in Bodies |-> 0] /\ vAt = [b \in Bodies |-> 0] /\ lAt = [b \in Bodies |-> 0]
        /\ evald = [b \in Bodies |-> FALSE] /\ n = 0 /\ last = [act |-> "init", b |-> 0, l |-> 0] /\ trail = <<>>

\* the flow velocity the law sees
Seen(b) == IF Stateful /\ evald[b] THEN pen[b] ELSE <<u, 1>>

Interact(b, L) ==
    /\ n < MaxSteps
    /\ LET s == Seen(b)                       \* <<num, den>>
           \* (s + L v) / (1 + L)  with s = sn/sd :  (sn + L v sd) / (sd (1 + L))
           pn == s[1] + L * v[b] * s[2]
           pd == s[2] * (1 + L)
           fn == IF Overshoot THEN L * (v[b] * s[2] - s[1]) * (1 + L) ELSE pn - s[1] * (1 + L)
       IN  /\ pen'  = [pen EXCEPT ![b] = <<pn, pd>>]
           /\ flux' = [flux EXCEPT ![b] = <<fn, pd>>]
           /\ eul'  = IF ResetMode THEN << <<b, fn, pd>> >> ELSE Append(eul, <<b, fn, pd>>)
    /\ uAt' = [uAt EXCEPT ![b] = u] /\ vAt' = [vAt EXCEPT ![b] = v[b]] /\ lAt' = [lAt EXCEPT ![b] = L]
    /\ evald' = [evald EXCEPT ![b] = TRUE]
    /\ n' = n + 1 /\ last' = [act |-> "interact", b |-> b, l |-> L]
    /\ UNCHANGED <<u, v>>

MoveBody(b) == /\ n < MaxSteps /\ \E x \in Vals : x # v[b] /\ v' = [v EXCEPT ![b] = x]
               /\ n' = n + 1 /\ last' = [act |-> "move", b |-> b, l |-> 0]
               /\ UNCHANGED <<u, pen, flux, eul, uAt, vAt, lAt, evald>>
ChangeFlow  == /\ n < MaxSteps /\ \E x \in Vals : x # u /\ u' = x
               /\ n' = n + 1 /\ last' = [act |-> "flow", b |-> 0, l |-> 0]
               /\ UNCHANGED <<v, pen, flux, eul, uAt, vAt, lAt, evald>>
\* the flow solver consumes the flux field (adds it to its velocity) and clears it
Consume     == /\ n < MaxSteps /\ eul # <<>> /\ eul' = <<>>
               /\ n' = n + 1 /\ last' = [act |-> "consume", b |-> 0, l |-> 0]
               /\ UNCHANGED <<u, v, pen, flux, uAt, vAt, lAt, evald>>

Snap == [last |-> last', u |-> u', v |-> v', pen |-> pen', flux |-> flux', eul |-> eul']
Act  == \/ \E b \in Bodies : MoveBody(b) \/ \E L \in Ls : Interact(b, L)
        \/ ChangeFlow \/ Consume
Next == Act /\ trail' = IF KeepTrail THEN Append(trail, Snap) ELSE trail
Spec == Init /\ [][Next]_vars

\* ---- laws -------------------------------------------------------------------------------------------
Abs(x) == IF x < 0 THEN -x ELSE x
\* penalised velocity and flux of the last interaction, on the inputs of THAT interaction
PenLaw  == \A b \in Bodies : evald[b] =>
              /\ pen[b][2] > 0
              /\ pen[b][1] * (1 + lAt[b]) = pen[b][2] * (uAt[b] + lAt[b] * vAt[b])            \* pen = (u + L v)/(1 + L)
FluxLaw == \A b \in Bodies : evald[b] =>
              flux[b][1] * (1 + lAt[b]) = flux[b][2] * lAt[b] * (vAt[b] - uAt[b])              \* flux = L (v - u)/(1 + L)
\* the correction points from the flow velocity towards the body velocity and never overshoots it
NoOvershoot == \A b \in Bodies : evald[b] =>
              /\ flux[b][1] * (vAt[b] - uAt[b]) >= 0
              /\ Abs(flux[b][1]) <= flux[b][2] * Abs(vAt[b] - uAt[b])
\* ... and the remaining slip is the initial slip divided by 1 + L (stiffer penalisation = less slip)
SlipLaw == \A b \in Bodies : evald[b] =>
              (vAt[b] * pen[b][2] - pen[b][1]) * (1 + lAt[b]) = pen[b][2] * (vAt[b] - uAt[b])
\* memoryless: repeating an interaction on unchanged inputs reproduces the result
Memoryless == [][\A b \in Bodies : (last'.act = "interact" /\ last'.b = b /\ evald[b] /\ uAt[b] = u /\ vAt[b] = v[b] /\ lAt[b] = last'.l)
                                      => (flux'[b][1] * flux[b][2] = flux[b][1] * flux'[b][2])]_vars
FrameCond  == [][last'.act \in {"interact", "consume"} => (u' = u /\ v' = v)]_vars
Superpose  == ResetMode => Len(eul) <= 1
FieldLaw   == [][ \/ eul' = eul
                  \/ (last'.act = "interact" /\ eul' = (IF ResetMode THEN <<>> ELSE eul) \o << <<last'.b, flux'[last'.b][1], flux'[last'.b][2]>> >>)
                  \/ (last'.act = "consume" /\ eul' = <<>>) ]_vars

EmitTrail == n = MaxSteps => PrintT(<<"EMIT", ToJson([u0 |-> trail[1].u, trail |-> trail])>>)
=============================================================================
