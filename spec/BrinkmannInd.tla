---------------------------- MODULE BrinkmannInd ----------------------------
(***************************************************************************)
(* X03, unbounded form: the laws of Brinkmann.tla for ONE body as an       *)
(* inductive invariant over unbounded integers (any velocities, any        *)
(* lambda dt = L >= 0, any history length).  Checked with Apalache:        *)
(*   Init => IndInv            (--init=Init    --inv=IndInv --length=0)    *)
(*   IndInv /\ Next => IndInv' (--init=IndInit --inv=IndInv --length=1)    *)
(* NextBad (the previous penalised velocity taken as the flow velocity) is *)
(* the negative control: the induction must fail.                          *)
(***************************************************************************)
EXTENDS Integers

VARIABLES
    \* @type: Int;
    u,
    \* @type: Int;
    v,
    \* @type: Int;
    pn,
    \* @type: Int;
    pd,
    \* @type: Int;
    fn,
    \* @type: Int;
    uAt,
    \* @type: Int;
    vAt,
    \* @type: Int;
    lAt,
    \* @type: Bool;
    evald

Init == /\ u \in Int /\ v \in Int /\ pn = 0 /\ pd = 1 /\ fn = 0 /\ uAt = 0 /\ vAt = 0 /\ lAt = 0 /\ evald = FALSE

\* pen = (u + L v)/(1 + L) = pn/pd,  flux = pen - u = fn/pd
Interact == \E L \in Int :
            /\ L >= 0
            /\ pn' = u + L * v /\ pd' = 1 + L /\ fn' = L * (v - u)
            /\ uAt' = u /\ vAt' = v /\ lAt' = L /\ evald' = TRUE
            /\ UNCHANGED <<u, v>>
InteractBad == \E L \in Int :
            /\ L >= 0 /\ evald
            /\ pn' = pn + L * v * pd /\ pd' = pd * (1 + L) /\ fn' = (pn + L * v * pd) - pn * (1 + L)
            /\ uAt' = u /\ vAt' = v /\ lAt' = L /\ evald' = TRUE
            /\ UNCHANGED <<u, v>>
MoveBody   == \E x \in Int : v' = x /\ UNCHANGED <<u, pn, pd, fn, uAt, vAt, lAt, evald>>
ChangeFlow == \E x \in Int : u' = x /\ UNCHANGED <<v, pn, pd, fn, uAt, vAt, lAt, evald>>
Next    == Interact \/ MoveBody \/ ChangeFlow
NextBad == InteractBad \/ Interact \/ MoveBody \/ ChangeFlow

IndInv == evald =>
          /\ lAt >= 0 /\ pd = 1 + lAt
          /\ pn = uAt + lAt * vAt                      \* pen (1 + L) = u + L v
          /\ fn = lAt * (vAt - uAt)                    \* flux (1 + L) = L (v - u)
          /\ fn = pn - uAt * pd                        \* flux = pen - u
          /\ (vAt - uAt) * pd - fn = vAt - uAt         \* remaining slip (v - pen) (1 + L) = v - u
IndInit == /\ u \in Int /\ v \in Int /\ pn \in Int /\ pd \in Int /\ fn \in Int /\ uAt \in Int /\ vAt \in Int /\ lAt \in Int /\ evald \in BOOLEAN
           /\ IndInv
=============================================================================
