------------------------------ MODULE SubStep -------------------------------
(***************************************************************************)
(* Extended coverage (X04): the body sub-stepping schedule that every      *)
(* two-way coupled example of the repository uses inside one flow step     *)
(* (refinement of MainLoop.tla's "istep"):                                  *)
(*                                                                         *)
(*     flow_dt        := stable flow time step                             *)
(*     rod_time_steps := int(flow_dt / min(flow_dt, rod_dt))               *)
(*     local_rod_dt   := flow_dt / rod_time_steps                          *)
(*     rod_time       := flow time                                         *)
(*     repeat rod_time_steps times:                                        *)
(*         rod_time := body step(rod_time, local_rod_dt)   -- evaluates    *)
(*                     the interaction on the Lagrangian grid (two-way)    *)
(*         interaction.time_step(local_rod_dt)                             *)
(*     interaction()            -- spread into the Eulerian forcing        *)
(*     flow.time_step(flow_dt)                                             *)
(*                                                                         *)
(* Times are integers (ticks); local_rod_dt = fdt / n is carried as the    *)
(* pair (fdt, n) and clocks inside the sub-cycle as numerators over n.     *)
(* Rounding = "floor" is what the examples do (int()); "ceil" is the       *)
(* design alternative under which the body never takes a step larger than  *)
(* the step it asked for.                                                  *)
(***************************************************************************)
EXTENDS Integers, TLC, Json

CONSTANTS FlowDts, RodDts, MaxIter, Rounding

VARIABLES pc, it, fdt, rdt, n, k, ftime, isub, rsub, evals, pending
\* isub / rsub: forcing / body clock inside the current iteration, as numerators over n (offset from ftime)
vars == <<pc, it, fdt, rdt, n, k, ftime, isub, rsub, evals, pending>>

Min(a, b) == IF a < b THEN a ELSE b
Steps(f, r) == LET m == Min(f, r) IN IF Rounding = "floor" THEN f \div m ELSE (f + m - 1) \div m

Init == /\ pc = "dt" /\ it = 0 /\ fdt = 0 /\ rdt \in RodDts /\ n = 1 /\ k = 0 /\ ftime = 0 /\ isub = 0 /\ rsub = 0 /\ evals = 0 /\ pending = 0

ChooseDt == /\ pc = "dt" /\ it < MaxIter
            /\ \E f \in FlowDts : fdt' = f /\ n' = Steps(f, rdt)
            /\ k' = 0 /\ isub' = 0 /\ rsub' = 0 /\ evals' = 0 /\ pc' = "sub"
            /\ UNCHANGED <<it, rdt, ftime, pending>>
\* one body step (evaluates the interaction on the Lagrangian grid) followed by one forcing step, each of size fdt / n
SubCycle == /\ pc = "sub" /\ k < n
            /\ rsub' = rsub + fdt /\ evals' = evals + 1 /\ isub' = isub + fdt /\ k' = k + 1
            /\ UNCHANGED <<pc, it, fdt, rdt, n, ftime, pending>>
EndSub   == /\ pc = "sub" /\ k = n /\ pc' = "interact"
            /\ UNCHANGED <<it, fdt, rdt, n, k, ftime, isub, rsub, evals, pending>>
Interact == /\ pc = "interact" /\ pending' = pending + 1 /\ pc' = "flow"
            /\ UNCHANGED <<it, fdt, rdt, n, k, ftime, isub, rsub, evals>>
Flow     == /\ pc = "flow" /\ pending' = 0 /\ ftime' = ftime + fdt /\ it' = it + 1 /\ pc' = "dt"
            /\ UNCHANGED <<fdt, rdt, n, k, isub, rsub, evals>>
Next == ChooseDt \/ SubCycle \/ EndSub \/ Interact \/ Flow
Spec == Init /\ [][Next]_vars

\* ---- laws -------------------------------------------------------------------------------------------
AtLeastOne  == pc # "dt" => n >= 1
\* after the sub-cycle the body clock and the forcing clock have advanced by exactly the flow step: n * (fdt / n) = fdt
ClockSync   == pc \in {"interact", "flow"} => (isub = n * fdt /\ rsub = n * fdt)
\* ... every sub-step evaluated the interaction once, and the Eulerian forcing is loaded exactly once per flow step
OneSpread   == pc = "flow" => (pending = 1 /\ evals = n)
\* the body is never advanced by a step larger than the one it asked for:  fdt / n <= rdt
RodDtRespected == pc # "dt" => fdt <= n * rdt
\* what int() guarantees instead: the sub-step stays below TWICE the requested body step
BelowTwice     == pc # "dt" => fdt < 2 * n * rdt
\* and the number of sub-steps is never larger than needed
NotTooMany     == pc # "dt" => (n = 1 \/ (n - 1) * rdt < fdt)

EmitCase == (pc = "sub" /\ k = 0) => PrintT(<<"EMIT", ToJson([fdt |-> fdt, rdt |-> rdt, n |-> n])>>)
=============================================================================
