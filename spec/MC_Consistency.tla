--------------------------- MODULE MC_Consistency ---------------------------
(***************************************************************************)
(* C05: every differential operator of Stencils.tla reproduces its         *)
(* continuous counterpart exactly on all monomials of degree <= 2, with    *)
(* the documented sign, axis orientation and prefactor convention          *)
(* (first differences carry 1/2h, second differences 1/h^2, filter         *)
(* Laplacians 1/4); ENO3 flux differences are exact for cubics when both   *)
(* faces upwind alike and for quadratics otherwise.                        *)
(*                                                                         *)
(* One state = one case (operator, monomial per component, sign, shift);   *)
(* the invariant is evaluated at EVERY admissible cell of the grid.        *)
(***************************************************************************)
EXTENDS Stencils, Continuum, TLC, Json

CONSTANT Full           \* TRUE: all monomial combinations for vector operators; FALSE: one
                        \* non-constant component at a time (sufficient by linearity) + generic ones
VARIABLE cs
Mons == Monomials(2)
Z    == [k \in 1..D |-> 0]

Case(op, a, b, c, j, s, off) == [op |-> op, a |-> a, b |-> b, c |-> c, j |-> j, s |-> s, off |-> off]

ScalarOps == {"lap"} \cup (IF D = 2 THEN {"outplane_curl"} ELSE {"filt1"})   \* filters exist in 3-D only
VectorOps == IF D = 2 THEN {"inplane_curl", "update_vort", "update_vort_pen"}
                      ELSE {"curl3", "div3", "update_vort", "update_vort_pen"}

AllTriples == {<<a, b, (IF D = 2 THEN Z ELSE c)>> : a \in Mons, b \in Mons, c \in (IF D = 2 THEN {Z} ELSE Mons)}
NonConst(t) == Cardinality({k \in 1..3 : t[k] # Z})
Triples == IF Full THEN AllTriples
           ELSE {t \in AllTriples : NonConst(t) <= 1 \/ (Deg(t[1]) = 2 /\ Deg(t[2]) = 2 /\ t[1] # t[2] /\ Deg(t[3]) # 1)}
Cases ==
    {Case(op, a, Z, Z, j, 1, 0) : op \in ScalarOps, a \in Mons, j \in 1..D}
    \cup {Case(op, t[1], t[2], t[3], 1, 1, 0) : op \in VectorOps, t \in Triples}
    \cup (IF D = 3 THEN {Case("stretch", a, b, Z, j, 1, 0) : a \in Monomials(1), b \in Mons, j \in 1..3} ELSE {})
    \* ENO3: f = X^a, u = s * (X^b - off); total degree <= 3
    \cup {Case("eno3", a, b, Z, j, s, off) :
              a \in Mons, b \in Monomials(1), j \in 1..D, s \in {-1, 1}, off \in {0, 6, 8}}

Init == cs \in Cases
Next == UNCHANGED cs
Spec == Init /\ [][Next]_cs

\* what a central difference / second difference must return: 2h d/dx_k and h^2 d2/dx_k^2 (h = 2)
DX(e, k, c)  == 4 * DMonoAt(e, k, c)
DDX(e, k, c) == 4 * D2MonoAt(e, k, c)
RECURSIVE SumDDX(_, _, _)
SumDDX(e, c, k) == IF k = 0 THEN 0 ELSE DDX(e, k, c) + SumDDX(e, c, k - 1)

VF == IF D = 2 THEN <<Mono(cs.a), Mono(cs.b)>> ELSE <<Mono(cs.a), Mono(cs.b), Mono(cs.c)>>
VE == <<cs.a, cs.b, cs.c>>
Int1 == {c \in Cells : InInterior(c, 1)}
Int2 == {c \in Cells : InInterior(c, 2)}

\* continuous curl of the vector monomial field, component k, times 2h
CCurl3(k, c) == DX(VE[Nxt(Nxt(k))], Nxt(k), c) - DX(VE[Nxt(k)], Nxt(Nxt(k)), c)
CCurl2(c)    == DX(cs.b, 1, c) - DX(cs.a, 2, c)           \* dv/dx - du/dy
ConstV(n)    == [k \in 1..D |-> Const(n)]

\* ENO3
U    == [c \in Cells |-> cs.s * (MonoAt(cs.b, c) - cs.off)]
F    == Mono(cs.a)
SameBranch(c, k) == (U[c] + U[Sh(c, k, 1)] > 0) = (U[c] + U[Sh(c, k, -1)] > 0)
\* 6h d(f u)/dx_k = 12 d/dX_k [ s (X^(a+b) - off X^a) ]
EnoExact(c, k) == 12 * cs.s * (DMonoAt(AddE(cs.a, cs.b), k, c) - cs.off * DMonoAt(cs.a, k, c))

\* Actual: the grid operator of Stencils.tla applied to the monomial field(s); a sequence of arrays
Actual ==
  CASE cs.op = "lap"   -> << [c \in Cells |-> IF InInterior(c, 1) THEN Lap(Mono(cs.a), c) ELSE 0] >>
    [] cs.op = "filt1" -> << Filt1x4(Zero, Mono(cs.a), cs.j) >>
    [] cs.op = "outplane_curl" -> OutplaneCurl2(VZero, Mono(cs.a), 1, TRUE)
    [] cs.op = "inplane_curl"  -> << InplaneCurl2(Zero, VF, 1) >>
    [] cs.op = "curl3" -> Curl3(VZero, VF, 1, TRUE)
    [] cs.op = "div3"  -> << Div3(Zero, VF, 1, TRUE) >>
    [] cs.op = "update_vort" -> IF D = 2 THEN << UpdateVort2(Const(7), VF, 3) >> ELSE UpdateVort3(ConstV(7), VF, 3)
    [] cs.op = "update_vort_pen" ->        \* penalised field = 2 F, velocity = F: difference = F
          LET P == [k \in 1..D |-> [c \in Cells |-> 2 * VF[k][c]]] IN
          IF D = 2 THEN << UpdateVortPen2(Const(7), P, VF, 3) >> ELSE UpdateVortPen3(ConstV(7), P, VF, 3)
    [] cs.op = "stretch" ->       \* omega = X^a in every component, u_j = X^b
          LET om == [k \in 1..3 |-> Mono(cs.a)]
              u  == [k \in 1..3 |-> IF k = cs.j THEN Mono(cs.b) ELSE Zero]
          IN  StretchFlux(VZero, om, u, 1)
    [] cs.op = "eno3" -> << [c \in Cells |-> IF InInterior(c, 2)
                                             THEN Front6(F, U, c, cs.j) - Back6(F, U, c, cs.j) ELSE 0] >>

\* Expected: the continuous operator on the same monomials (Continuum.tla), times the documented
\* grid factor (2h for first differences, h^2 for second differences, 6h for the ENO3 flux), h = 2
ExpectedAt(k, c) ==
  CASE cs.op = "lap"   -> SumDDX(cs.a, c, D)
    [] cs.op = "filt1" -> -DDX(cs.a, cs.j, c)
    [] cs.op = "outplane_curl" -> IF k = 1 THEN DX(cs.a, 2, c) ELSE -DX(cs.a, 1, c)   \* (d/dy, -d/dx)
    [] cs.op = "inplane_curl"  -> CCurl2(c)
    [] cs.op = "curl3" -> CCurl3(k, c)
    [] cs.op = "div3"  -> DX(cs.a, 1, c) + DX(cs.b, 2, c) + DX(cs.c, 3, c)
    [] cs.op \in {"update_vort", "update_vort_pen"} -> 7 + 3 * (IF D = 2 THEN CCurl2(c) ELSE CCurl3(k, c))
    [] cs.op = "stretch" -> IF k = cs.j THEN MonoAt(cs.a, c) * (DX(cs.b, 1, c) + DX(cs.b, 2, c) + DX(cs.b, 3, c))
                                        ELSE 0
    [] cs.op = "eno3" -> EnoExact(c, cs.j)
NOut == Len(Actual)
RegionW == IF cs.op = "eno3" THEN 2 ELSE 1
\* where the statement applies
Guard(c) == /\ InInterior(c, RegionW)
            /\ cs.op = "eno3" => (SameBranch(c, cs.j) \/ Deg(cs.a) + Deg(cs.b) <= 2)
Expected == [k \in 1..NOut |-> [c \in Cells |-> IF Guard(c) THEN ExpectedAt(k, c) ELSE 0]]
Mask     == [c \in Cells |-> IF Guard(c) THEN 1 ELSE 0]

Consistent == \A k \in 1..NOut : \A c \in Cells : Guard(c) => Actual[k][c] = Expected[k][c]

\* vacuity guards: both kinds of ENO3 branch combination must occur among the cases
MixedSeen == cs.op = "eno3" /\ \E c \in Int2 : ~SameBranch(c, cs.j)

NoMixed == ~MixedSeen                      \* negative control: must be REFUTED (mixed branches occur)
\* negative control: cubic exactness claimed for mixed branches too -- must be REFUTED
EnoTooStrong == cs.op = "eno3" => \A c \in Int2 : Actual[1][c] = EnoExact(c, cs.j)

EmitState == PrintT(<<"EMIT", ToJson([cs |-> cs, shape |-> Shape, expected |-> VArr(Expected),
                                      mask |-> Arr(Mask), u |-> Arr(U)])>>)
=============================================================================
