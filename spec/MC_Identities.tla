---------------------------- MODULE MC_Identities ---------------------------
(***************************************************************************)
(* C12: identities between DIFFERENT operators of Stencils.tla, at every   *)
(* cell whose stencils do not touch the boundary ring.  All operators are  *)
(* linear, so unit impulses of every input sample cover all real fields;   *)
(* a dense pseudo-random field is added as a cross-check.                  *)
(***************************************************************************)
EXTENDS Stencils, TLC, Json

VARIABLE cs      \* [kind |-> "imp" | "dense", k |-> component, c0 |-> cell]

Init == \/ \E k \in 1..D, c0 \in Cells : cs = [kind |-> "imp", k |-> k, c0 |-> c0]
        \/ \E k \in 1..3 : cs = [kind |-> "dense", k |-> k, c0 |-> CHOOSE c \in Cells : TRUE]
Next == UNCHANGED cs
Spec == Init /\ [][Next]_cs

Dense(s) == [c \in Cells |-> ((3 * c[1] + 5 * c[2] + 7 * c[D] * s + c[1] * c[2]) % 7) - 3]
\* the vector field of the case, and its first component as a scalar field
VF == IF cs.kind = "imp" THEN [k \in 1..D |-> [c \in Cells |-> IF k = cs.k /\ c = cs.c0 THEN 1 ELSE 0]]
                         ELSE [k \in 1..D |-> Dense(k + cs.k)]
SF == IF cs.kind = "imp" THEN [c \in Cells |-> IF c = cs.c0 THEN 1 ELSE 0] ELSE Dense(cs.k)
Int2 == {c \in Cells : InInterior(c, 2)}
Div2At(V, c) == Dc(V[1], c, 1) + Dc(V[2], c, 2)

\* div(curl F) = 0   (3-D)
DivCurl == D = 3 => LET C == Curl3(VZero, VF, 1, TRUE) IN \A c \in Int2 : Div3At(C, c) = 0
\* curl-type vorticity updates never create divergence of vorticity (3-D)
UpdateKeepsDiv == D = 3 =>
    LET om == [k \in 1..3 |-> Dense(k)]
        r  == UpdateVort3(om, VF, 3)
    IN  \A c \in Int2 : Div3At(r, c) = Div3At(om, c)
\* 2-D: u = curl(psi) is discretely divergence free, and curl(u) = - wide Laplacian(psi)
StreamFn == D = 2 =>
    LET V == OutplaneCurl2(VZero, SF, 1, TRUE)
    IN  \A c \in Int2 : /\ Div2At(V, c) = 0
                        /\ InplaneCurl2At(V, c) =
                             -(SF[Sh(c, 1, 2)] + SF[Sh(c, 1, -2)] + SF[Sh(c, 2, 2)] + SF[Sh(c, 2, -2)] - 4 * SF[c])
\* vorticity update = omega + p * (the library's own curl of the forcing)
UpdateIsCurl ==
    IF D = 2 THEN LET om == Dense(1) IN
                  \A c \in Cells : UpdateVort2(om, VF, 3)[c]
                       = om[c] + (IF InInterior(c, 1) THEN 3 * InplaneCurl2(Zero, VF, 1)[c] ELSE 0)
             ELSE LET om == [k \in 1..3 |-> Dense(k)] C == Curl3(VZero, VF, 1, TRUE) IN
                  \A k \in 1..3 : \A c \in Cells : UpdateVort3(om, VF, 3)[k][c] = om[k][c] + 3 * C[k][c]
\* penalised-velocity update = forcing update applied to (penalised - velocity)
PenIsForcing ==
    LET W == [k \in 1..D |-> Dense(k + 2)] IN
    IF D = 2 THEN UpdateVortPen2(Dense(1), VF, W, 3) = UpdateVort2(Dense(1), VDiff(VF, W), 3)
             ELSE LET om == [k \in 1..3 |-> Dense(k)] IN UpdateVortPen3(om, VF, W, 3) = UpdateVort3(om, VDiff(VF, W), 3)

\* negative control: div(curl) does NOT vanish at depth-1 cells when the ring was reset
DivCurlAtDepth1 == D = 3 => LET C == Curl3(VZero, VF, 1, TRUE)
                            IN  \A c \in Cells : InInterior(c, 1) => Div3At(C, c) = 0

EmitState == PrintT(<<"EMIT", ToJson([cs |-> cs, shape |-> Shape, vf |-> VArr(VF), sf |-> Arr(SF)])>>)
=============================================================================
