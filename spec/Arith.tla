-------------------------------- MODULE Arith -------------------------------
(***************************************************************************)
(* Exact rational arithmetic on pairs <<num, den>> (den > 0), normalised   *)
(* by the gcd so that intermediate values stay inside TLC's 32-bit range.  *)
(***************************************************************************)
EXTENDS Integers

RECURSIVE Gcd(_, _)
Gcd(a, b) == IF b = 0 THEN a ELSE Gcd(b, a % b)
AbsI(x) == IF x < 0 THEN -x ELSE x

Norm(r) == LET g == Gcd(AbsI(r[1]), r[2]) IN IF g = 0 THEN <<0, 1>> ELSE <<r[1] \div g, r[2] \div g>>
Q(n, d)   == IF d > 0 THEN Norm(<<n, d>>) ELSE Norm(<<-n, -d>>)
RInt(n)   == <<n, 1>>
\* a + b over the least common denominator
RAdd(a, b) == LET g == Gcd(a[2], b[2])
              IN  Norm(<<a[1] * (b[2] \div g) + b[1] * (a[2] \div g), (a[2] \div g) * b[2]>>)
RNeg(a)    == <<-a[1], a[2]>>
RSub(a, b) == RAdd(a, RNeg(b))
\* a * b with cross-cancellation
RMul(a, b) == LET g1 == Gcd(AbsI(a[1]), b[2]) g2 == Gcd(AbsI(b[1]), a[2])
                  h1 == IF g1 = 0 THEN 1 ELSE g1   h2 == IF g2 = 0 THEN 1 ELSE g2
              IN  Norm(<<(a[1] \div h1) * (b[1] \div h2), (a[2] \div h2) * (b[2] \div h1)>>)
RInv(a)    == IF a[1] > 0 THEN <<a[2], a[1]>> ELSE <<-a[2], -a[1]>>
RDiv(a, b) == RMul(a, RInv(b))
\* comparisons by cross-multiplication after cancelling the common denominator factor
RLe(a, b)  == LET g == Gcd(a[2], b[2]) IN a[1] * (b[2] \div g) <= b[1] * (a[2] \div g)
RLt(a, b)  == LET g == Gcd(a[2], b[2]) IN a[1] * (b[2] \div g) <  b[1] * (a[2] \div g)
REq(a, b)  == Norm(a) = Norm(b)
RMin(a, b) == IF RLe(a, b) THEN a ELSE b
RPos(a)    == a[1] > 0
=============================================================================
