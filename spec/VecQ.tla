-------------------------------- MODULE VecQ ---------------------------------
(***************************************************************************)
(* 3-vectors and 3x3 matrices over exact rationals (Arith.tla), rotations   *)
(* from integer quaternions: R(q) / |q|^2 is a rational rotation matrix and *)
(* such matrices are dense in SO(3).                                        *)
(***************************************************************************)
EXTENDS Arith, Sequences

V3(a, b, c)   == <<a, b, c>>                       \* components are rationals <<n, d>>
VI(a, b, c)   == <<RInt(a), RInt(b), RInt(c)>>     \* from integers
VZ            == VI(0, 0, 0)
VAdd(a, b)    == [i \in 1..3 |-> RAdd(a[i], b[i])]
VSub(a, b)    == [i \in 1..3 |-> RSub(a[i], b[i])]
VNeg(a)       == [i \in 1..3 |-> RNeg(a[i])]
VScale(s, a)  == [i \in 1..3 |-> RMul(s, a[i])]
VDot(a, b)    == RAdd(RAdd(RMul(a[1], b[1]), RMul(a[2], b[2])), RMul(a[3], b[3]))
VCross(a, b)  == << RSub(RMul(a[2], b[3]), RMul(a[3], b[2])),
                    RSub(RMul(a[3], b[1]), RMul(a[1], b[3])),
                    RSub(RMul(a[1], b[2]), RMul(a[2], b[1])) >>
VEq(a, b)     == \A i \in 1..3 : REq(a[i], b[i])
RECURSIVE VSumSeq(_)
VSumSeq(s)    == IF s = <<>> THEN VZ ELSE VAdd(Head(s), VSumSeq(Tail(s)))

\* matrices: sequences of rows
MatVec(m, v)  == [i \in 1..3 |-> VDot(m[i], v)]
Transp(m)     == [i \in 1..3 |-> [j \in 1..3 |-> m[j][i]]]
\* rotation matrix of the integer quaternion q = <<w, x, y, z>>
Rot(q) == LET w == q[1] x == q[2] y == q[3] z == q[4]
              n == w * w + x * x + y * y + z * z
          IN  << << Q(w*w + x*x - y*y - z*z, n), Q(2 * (x*y - w*z), n), Q(2 * (x*z + w*y), n) >>,
                 << Q(2 * (x*y + w*z), n), Q(w*w - x*x + y*y - z*z, n), Q(2 * (y*z - w*x), n) >>,
                 << Q(2 * (x*z - w*y), n), Q(2 * (y*z + w*x), n), Q(w*w - x*x - y*y + z*z, n) >> >>
IsRotation(m) == /\ \A i \in 1..3 : REq(VDot(m[i], m[i]), RInt(1))
                 /\ \A i \in 1..3, j \in 1..3 : i # j => REq(VDot(m[i], m[j]), RInt(0))
                 /\ VEq(VCross(m[1], m[2]), m[3])
=============================================================================
